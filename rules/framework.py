"""Common plumbing for all property checks: obligations, violations, known findings,
evidence files, exit codes."""
import json
import os
import sys
import time

VERIF = os.path.dirname(os.path.dirname(os.path.abspath(__file__)))
KNOWN_FILE = os.path.join(VERIF, "known_findings.txt")


class AnchorMissing(Exception):
    """A function / call site / table a rule is anchored on was not found. The rule fails
    closed: a rule matching zero sites would pass vacuously forever."""


class Report:
    def __init__(self, prop, tier, seed):
        self.prop = prop
        self.tier = tier
        self.seed = seed
        self.obligations = []   # dicts: rule, key, status, detail, span, config
        self.notes = []
        self.rules = {}         # rule -> description
        self.configs = []
        self.analysed = set()   # function names looked at
        self.assumptions = []
        self.t0 = time.time()
        self.config = "default"

    # ---- recording ----
    def rule(self, name, text):
        self.rules[name] = text

    def assume(self, text):
        if text not in self.assumptions:
            self.assumptions.append(text)

    def note(self, text):
        self.notes.append(text)

    def saw(self, *fn_names):
        for n in fn_names:
            self.analysed.add(n)

    def ok(self, rule, key, detail="", span=None):
        self.obligations.append({"rule": rule, "key": key, "status": "ok", "detail": detail,
                                 "span": span, "config": self.config})

    def violation(self, rule, key, detail, span=None, path=None):
        self.obligations.append({"rule": rule, "key": key, "status": "violation", "detail": detail,
                                 "span": span, "path": path, "config": self.config})

    def check(self, cond, rule, key, detail_ok="", detail_bad="", span=None, path=None):
        if cond:
            self.ok(rule, key, detail_ok, span)
        else:
            self.violation(rule, key, detail_bad or detail_ok, span, path)
        return cond

    def floor(self, rule, what, found, floor):
        """Fail closed if fewer instances than confirmed by hand were matched."""
        key = "%s|floor|%s" % (rule, what)
        if found < floor:
            self.violation(rule, key, "anchor count for %s fell to %d (< %d confirmed by reading): "
                           "the rule would pass vacuously" % (what, found, floor))
        else:
            self.ok(rule, key, "%d instances of %s (floor %d)" % (found, what, floor))

    def analysis_failed(self, rule, what):
        self.violation(rule, "%s|analysis-incomplete" % rule,
                       "fail closed: %s. The construct is reported because the rules cannot certify it" % what)

    def anchor_missing(self, rule, what):
        self.violation(rule, "%s|anchor|%s" % (rule, what),
                       "anchor missing: %s not found in the analysed program" % what)


def load_known():
    known = {}
    fixed = []
    if os.path.exists(KNOWN_FILE):
        for line in open(KNOWN_FILE):
            line = line.rstrip("\n")
            if line.startswith("known: "):
                # known: property=<id> key=<key> :: <what fails>
                rest = line[len("known: "):]
                head, _, what = rest.partition(" :: ")
                parts = head.split(" ", 1)
                prop = parts[0].split("=", 1)[1]
                key = parts[1][len("key="):] if len(parts) > 1 else ""
                known[(prop, key)] = what
            elif line.startswith("fixed: "):
                fixed.append(line)
    return known, fixed


def span_str(sp):
    if not sp:
        return None
    if isinstance(sp, str):
        return sp
    return "%s:%d:%d" % (sp["f"], sp["l"], sp["c"])


def finish(report, level_text, explanation):
    """Writes evidence and replay files, prints the verdict lines, returns the exit code."""
    known, _fixed = load_known()
    prop = report.prop
    ev_dir = os.environ.get("VERIF_EVIDENCE_DIR") or os.path.join(VERIF, "evidence")
    os.makedirs(ev_dir, exist_ok=True)

    viol = [o for o in report.obligations if o["status"] == "violation"]
    new = []
    kf = []
    seen_keys = set()
    for o in viol:
        k = (prop, o["key"])
        if k in known:
            if o["key"] not in seen_keys:
                kf.append(o)
            seen_keys.add(o["key"])
            o["status"] = "known"
        else:
            new.append(o)

    for o in kf:
        print("KNOWN-FINDING: property=%s %s [%s] %s" % (prop, known[(prop, o["key"])], o["key"],
                                                          span_str(o.get("span")) or ""))
    code = 0
    replay_path = None
    if new:
        code = 1
        replay_path = os.path.join(ev_dir, "%s.replay.json" % prop)
        with open(replay_path, "w") as f:
            json.dump({"property": prop, "tier": report.tier, "violations": [
                {"rule": o["rule"], "key": o["key"], "detail": o["detail"],
                 "span": span_str(o.get("span")), "path": o.get("path"), "config": o.get("config")}
                for o in new]}, f, indent=1)
        for o in new:
            print("violation: [%s] %s @ %s (config %s)\n    %s" % (
                o["rule"], o["key"], span_str(o.get("span")) or "?", o.get("config"), o["detail"]))
        print("VIOLATION property=%s replay=%s" % (prop, replay_path))

    n_ob = len(report.obligations)
    n_ok = len([o for o in report.obligations if o["status"] == "ok"])
    distinct = len({(o["rule"], o["key"]) for o in report.obligations})
    samples = []
    per_rule = {}
    for o in report.obligations:
        per_rule.setdefault(o["rule"], []).append(o)
    for r, obs in sorted(per_rule.items()):
        for o in obs[:6]:
            samples.append({"rule": r, "instance": o["key"], "status": o["status"],
                            "detail": o["detail"][:300], "span": span_str(o.get("span")),
                            "config": o.get("config")})
    evidence = {
        "property_id": prop,
        "tier": report.tier,
        "seed": report.seed,
        "level": "other",
        "coverage": {
            "explanation": explanation,
            "obligations": n_ob,
            "discharged": n_ok,
            "evaluations": max(n_ob, 1),
            "distinct_nontrivial": distinct,
            "rule": "one obligation per (rule, instance, configuration); an instance is a resolved program "
                    "entity (function, call site, CFG edge, match arm, table row); distinct = distinct (rule, instance) pairs",
            "samples": samples,
            "rules": report.rules,
            "per_rule_counts": {r: {"total": len(obs), "ok": len([o for o in obs if o["status"] == "ok"]),
                                    "known": len([o for o in obs if o["status"] == "known"]),
                                    "violation": len([o for o in obs if o["status"] == "violation"])}
                                for r, obs in sorted(per_rule.items())},
            "configurations": report.configs,
            "functions_analysed": sorted(report.analysed),
            "notes": report.notes,
            "known_findings": [{"key": o["key"], "what": known[(prop, o["key"])]} for o in kf],
            "checker_cmd": "bin/check %s --tier %s" % (prop, report.tier),
            "level_text": level_text,
            "self_validation": getattr(report, "self_validation", None),
            "exhaustive": False,
        },
        "assumptions": report.assumptions,
        "wall_s": round(time.time() - report.t0, 3),
        "violations": len(new),
    }
    with open(os.path.join(ev_dir, "%s.json" % prop), "w") as f:
        json.dump(evidence, f, indent=1)
    print("%s: %d obligations, %d ok, %d known findings, %d new violations (%s tier, configs: %s)" % (
        prop, n_ob, n_ok, len(kf), len(new), report.tier, ",".join(report.configs)))
    return code
