"""C16 — tree search tries the best-rated fallback candidates, best first.
Claimed clauses (structure only): R-CANDIDATE-KEY, R-BEST-FIRST, R-EVICT-WORST. The buffer algorithm itself quantifies over
insertion sequences; what is decided here is the part of it that is visible in the shape of the code. DESIGN.md 9.6."""
import cfg
import lib
import terms as T
from facts import callee_name
from props.c10 import loop_info, iter_loop_header

KINDS = ["core"]
LEVEL_TEXT = ("structural rules over rustc MIR of Trees::search_best and SortedBuffer::{add,iter}: decides that a cached candidate is "
              "keyed by the rating of the very tree it names, that the direction in which the buffer is kept sorted and the direction "
              "in which the search consumes it agree (greatest key first), that every cached candidate is tried until one gives a "
              "non-Memory result, and - for the rotate-and-store idioms it recognises - that an insertion keeps all elements and a "
              "full buffer gives up the element at its worst end; other buffer implementations are reported as undecided, insertion "
              "sequences are not enumerated")
TECHNIQUE = ("term provenance of the cached key/value, comparator-direction vs iteration-direction agreement between sibling sites, "
             "loop-exit analysis, linear range terms of the rotate/store idiom with guard polarity")
EXPLANATION = (
    "R-CANDIDATE-KEY: the only SortedBuffer::add in search_best stores OrdBy((p, ..), i) where p is the result of rate(tree.class(), "
    "tree.free()) for tree = entries[i] and i is that same index. R-BEST-FIRST: SortedBuffer::add finds the insertion point with "
    "`value <= element` (ascending storage), SortedBuffer::iter walks the array forwards and search_best consumes it with .rev(): the "
    "greatest key is tried first; the consuming loop calls access(element.1) and is left only by exhaustion or with a non-Memory "
    "result. R-EVICT-WORST: with len = index of the first free slot (or N) and pos = insertion point, the non-full branch rotates "
    "[pos..=len] (the free slot takes part, nothing is overwritten) and stores at pos; the full branch rotates [..pos] left and stores "
    "at pos-1, i.e. gives up element 0, the end consumed last. A rotation that stops at len-1 overwrites/evicts the greatest element."
)

ADD = "llfree::util::SortedBuffer::add"
ITER = "llfree::util::SortedBuffer::iter"
SEARCH_BEST = "llfree::trees::Trees::search_best"
CMP = {"le": "asc", "lt": "asc", "ge": "desc", "gt": "desc"}


def _closure_bodies(prog, prefix):
    return [b for n, b in sorted(prog.crate("llfree").bodies.items()) if n.startswith(prefix + "::{closure")]


def storage_direction(prog):
    """'asc' | 'desc' | None, with a description: how SortedBuffer::add orders its elements."""
    found = []
    for cb in _closure_bodies(prog, ADD):
        ctm = T.Terms(cb, prog)
        for bi, t in cb.calls():
            cn = callee_name(t["callee"]) or ""
            m = cn.rsplit("::", 1)[-1]
            if "PartialOrd" not in cn or m not in CMP:
                continue
            a, c = ctm.operand(t["args"][0]), ctm.operand(t["args"][1])
            a_val = any(x[0] == "up" and x[1] == "value" for x in T.walk(a))
            c_val = any(x[0] == "up" and x[1] == "value" for x in T.walk(c))
            a_el = any(x[0] == "p" for x in T.walk(a))
            c_el = any(x[0] == "p" for x in T.walk(c))
            if a_val and c_el and not c_val:
                found.append((CMP[m], "value %s element" % m, t["span"]))
            elif c_val and a_el and not a_val:
                found.append(({"asc": "desc", "desc": "asc"}[CMP[m]], "element %s value" % m, t["span"]))
    if len(found) != 1:
        return None, "%d comparisons between the new value and an element found" % len(found), None
    return found[0]


def iter_direction(prog):
    b = lib.need_body(prog, ITER)
    tm = T.Terms(b, prog)
    rets = [tm.call_term(bi) if si == "term" else tm.rvalue(rv) for bi, si, rv in lib.assignments_to_return(b)]
    if len(rets) != 1:
        return None, "SortedBuffer::iter has %d results" % len(rets)
    r = rets[0]
    calls = [x[1] for x in T.walk(r) if x[0] == "call"]
    over = any(x[0] == "f" and x[3] == "buffer" for x in T.walk(r))
    extra = [c for c in calls if c not in ("slice::iter", "core::iter::traits::iterator::Iterator::flatten",
                                           "core::iter::traits::iterator::Iterator::rev")]
    # a sliced walk `buffer[..L]`: L must be the index of the first free slot or the capacity, nothing smaller
    sliced = [x for x in T.walk(r) if x[0] == "call" and x[1].endswith("::index") and len(x[2]) == 2]
    if sliced and over:
        rng = T.strip_refs(sliced[0][2][1])
        if rng[0] == "agg" and "RangeTo::RangeTo" in rng[1]:
            L = rng[2][0]
            if L[0] == "call" and L[1] == "core::option::Option::unwrap_or" and L[2][0][0] == "call" and L[2][0][1].endswith("::position"):
                d = T.strip_casts(L[2][1])
                full = d[0] == "k" or (d[0] == "call" and d[1] == "slice::len")
                if not full:
                    return "cut", "walks buffer[..len] with len defaulting to %s instead of the capacity: the last slot of a full buffer is never visited" % T.show(d)[:40]
                extra = [c for c in extra if not c.endswith("::index") and not c.endswith("::position") and c != "core::option::Option::unwrap_or"
                         and not c.endswith("is_none")]
    if not over or extra or "slice::iter" not in calls:
        return None, "unrecognised: " + T.show(r)[:120]
    return ("rev" if any(c.endswith("Iterator::rev") for c in calls) else "fwd"), T.show(r)[:120]


def _unwrap_key(key):
    """Looks through single-field wrapper structs around the sort key; returns (inner key, number of cmp::Reverse wrappers)."""
    nrev = 0
    while key[0] == "agg" and key[1].startswith("adt:") and len(key[2]) == 1 and not key[1].endswith("|enum"):
        if "cmp::Reverse" in key[1]:
            nrev += 1
        key = key[2][0]
    return key, nrev


def key_reversed(prog):
    """True if search_best wraps the rating in an odd number of cmp::Reverse: the buffer's order is then the inverse of the rating's."""
    b = lib.need_body(prog, SEARCH_BEST)
    tm = T.Terms(b, prog)
    for bi, t in lib.find_calls(b, ADD):
        v = tm.operand(t["args"][1])
        if v[0] == "agg" and v[1].startswith("adt:llfree::util::OrdBy") and len(v[2]) == 2:
            return _unwrap_key(v[2][0])[1] % 2 == 1
    return False


def r_candidate_key(rep, prog):
    rule = "R-CANDIDATE-KEY"
    rep.rule(rule, "search_best caches OrdBy((rate(tree.class(), tree.free()), ..), i) with tree = entries[i]: key and value describe the same tree")
    b = lib.need_body(prog, SEARCH_BEST)
    rep.saw(SEARCH_BEST)
    tm = T.Terms(b, prog)
    adds = lib.find_calls(b, ADD)
    rep.floor(rule, "SortedBuffer::add call sites in search_best", len(adds), 1)
    for bi, t in adds:
        v = tm.operand(t["args"][1])
        if not (v[0] == "agg" and v[1].startswith("adt:llfree::util::OrdBy") and len(v[2]) == 2):
            rep.violation(rule, "search_best|cached-element", "cached element is not OrdBy(key, tree): " + T.show(v)[:120], t["span"])
            continue
        key, val = v[2]
        key, _ = _unwrap_key(key)
        k0 = key[2][0] if key[0] == "agg" and key[1] == "tuple" and key[2] else key
        is_rate = k0[0] == "call" and k0[1].endswith("ops::function::Fn::call") and T.canon(T.strip_refs(k0[2][0])) == ("p", "rate")
        rep.check(is_rate, rule, "search_best|key-is-rating", "the sort key starts with the value returned by rate(..)",
                  "the sort key of a cached candidate is %s, not the rating returned by rate(..)" % T.show(k0)[:120], t["span"])
        if not is_rate:
            continue
        # the rated tree: class()/free() of load(entries[I])
        idxs = {T.canon(x[2]) for x in T.walk(k0[2][1]) if x[0] == "idx"}
        fields = {x[1].rsplit("::", 1)[-1] for x in T.walk(k0[2][1]) if x[0] == "call" and x[1].startswith("llfree::trees::Tree::")}
        rep.check(len(idxs) == 1 and {"class", "free"} <= fields, rule, "search_best|rated-tree",
                  "rate is given class() and free() of one loaded entry", "rate(..) is not given class/free of one entry: " + T.show(k0[2][1])[:160], t["span"])
        # tie-break component (if any): the rated tree is entirely free
        if key[0] == "agg" and key[1] == "tuple" and len(key[2]) == 2:
            k1 = T.canon(key[2][1])
            TF = prog.crate("llfree").const("llfree::TREE_FRAMES")
            good = (k1[0] == "bin" and k1[1] == "Eq" and ("c", TF) in (k1[2], k1[3]) and any(
                x[0] == "call" and x[1] == "llfree::trees::Tree::free" for x in (k1[2], k1[3]))
                and {T.canon(x[2]) for x in T.walk(key[2][1]) if x[0] == "idx"} == idxs)
            rep.check(good, rule, "search_best|tie-break", "equal ratings are ordered by `tree.free() == TREE_FRAMES` of the rated tree",
                      "the tie-break component of the key is %s, not `tree.free() == TREE_FRAMES` of the rated tree: among equally "
                      "rated candidates the entirely free trees are no longer preferred" % T.show(key[2][1])[:120], t["span"])
        vi = T.canon(val[2][0]) if val[0] == "agg" and val[2] else T.canon(val)
        rep.check(len(idxs) == 1 and vi in idxs, rule, "search_best|value-is-rated-tree", "the cached tree id is the index of the rated entry",
                  "the cached tree id %s is not the index of the entry that was rated" % T.show(val)[:120], t["span"])


def r_ordby(rep, prog):
    """The key wrapper compares by its first field only and consistently: partial_cmp == Some(cmp), cmp == self.0.cmp(&other.0).
    The buffer's `value <= element` goes through these."""
    rule = "R-CANDIDATE-KEY"
    want = {
        "<llfree::util::OrdBy as core::cmp::Ord>::cmp": ("call", "core::cmp::Ord::cmp", (("f", ("p", "self"), 0), ("f", ("p", "other"), 0))),
        "<llfree::util::OrdBy as core::cmp::PartialOrd>::partial_cmp": ("agg", "adt:core::option::Option::Some|enum",
                                                                        (("call", "<llfree::util::OrdBy as core::cmp::Ord>::cmp", (("p", "self"), ("p", "other"))),)),
    }
    for fn, w in want.items():
        b = prog.body(fn)
        if b is None:
            rep.check(True, rule, "OrdBy|" + fn.rsplit("::", 1)[-1], "undecided: %s not present (derived or another key type)" % fn)
            continue
        rep.saw(fn)
        tm = T.Terms(b, prog)
        rets = [T.canon(tm.call_term(bi) if si == "term" else tm.rvalue(rv)) for bi, si, rv in lib.assignments_to_return(b)]
        rep.check(rets == [w], rule, "OrdBy|" + fn.rsplit("::", 1)[-1], "compares the keys (first field) only",
                  "%s is not the comparison of the two keys (%s): the candidate buffer is no longer ordered by rating" % (fn, [str(r)[:100] for r in rets]), b.span)


def r_best_first(rep, prog):
    rule = "R-BEST-FIRST"
    rep.rule(rule, "storage direction of SortedBuffer::add and consumption direction in search_best agree (greatest key first); every cached "
                   "candidate is passed to access until one gives a non-Memory result")
    sd, sdesc, sspan = storage_direction(prog)
    if sd and key_reversed(prog):
        sd = {"asc": "desc", "desc": "asc"}[sd]
        sdesc += ", key wrapped in cmp::Reverse: descending by rating"
    rep.saw(ADD, ITER)
    if sd is None:
        rep.note("R-BEST-FIRST direction agreement undecided: cannot read the storage order of SortedBuffer::add (%s)" % sdesc)
    rep.check(True, rule, "add|comparator", ("insertion point found with `%s` (%s storage)" % (sdesc, "ascending" if sd == "asc" else "descending"))
              if sd else "undecided: " + sdesc, "", sspan)
    idir, idesc = iter_direction(prog)
    if idir == "cut":
        rep.violation(rule, "iter|whole-buffer", "SortedBuffer::iter " + idesc, lib.need_body(prog, ITER).span)
        idir = None
    elif idir is None:
        rep.note("R-BEST-FIRST direction agreement undecided: cannot read the direction of SortedBuffer::iter (%s)" % idesc)
    rep.check(True, rule, "iter|direction", ("SortedBuffer::iter walks the array %s" % ("forwards" if idir == "fwd" else "backwards"))
              if idir else "undecided: " + idesc)
    b = lib.need_body(prog, SEARCH_BEST)
    tm = T.Terms(b, prog)
    cons = None
    for h, blocks, exits in loop_info(b):
        info = iter_loop_header(b, tm, h)
        if info and T.mentions_call(info[0][2][0], ITER):
            cons = (h, blocks, exits, info)
    if cons is None:
        rep.violation(rule, "search_best|consume-loop", "no loop over best.iter() in search_best: cached candidates are never tried", b.span)
        return
    h, blocks, exits, info = cons
    src = info[0][2][0]
    calls = [x[1] for x in T.walk(src) if x[0] == "call"]
    extra = [c for c in calls if c != ITER and not c.endswith("::into_iter") and not c.endswith("Iterator::rev") and c != "llfree::util::SortedBuffer::new"]
    rep.check(not extra, rule, "search_best|consume-whole", "the whole buffer is consumed",
              "the consuming iterator is narrowed or reordered by %s" % ", ".join(extra), b.term(h)["span"])
    nrev = sum(1 for c in calls if c.endswith("Iterator::rev"))
    if sd and idir:
        eff = idir
        for _ in range(nrev):
            eff = "rev" if eff == "fwd" else "fwd"
        best_first = (sd == "asc" and eff == "rev") or (sd == "desc" and eff == "fwd")
        rep.check(best_first, rule, "search_best|best-first", "%s storage consumed %s: greatest key first" % (sd, "backwards" if eff == "rev" else "forwards"),
                  "the buffer is kept %s but consumed %s: cached candidates are tried from the worst-rated to the best-rated" % (
                      "ascending" if sd == "asc" else "descending", "backwards" if eff == "rev" else "forwards"), b.term(h)["span"])
    # the same buffer that add fills
    adds = lib.find_calls(b, ADD)
    if adds:
        recv = T.canon(T.strip_refs(tm.operand(adds[0][1]["args"][0])))
        same = any(T.canon(T.strip_refs(x[2][0])) == recv for x in T.walk(src) if x[0] == "call" and x[1] == ITER)
        rep.check(same, rule, "search_best|same-buffer", "consumes the buffer the search filled", "the consuming loop iterates another buffer", b.term(h)["span"])
    # access(element.1)
    accs = [(bi, t) for bi, t in b.calls() if bi in blocks and (callee_name(t["callee"]) or "").endswith("ops::function::Fn::call")
            and T.canon(T.strip_refs(tm.operand(t["args"][0]))) == ("p", "access")]
    rep.check(len(accs) == 1, rule, "search_best|access-in-loop", "one access call per cached candidate",
              "expected one access(..) call in the consuming loop, found %d" % len(accs), b.term(h)["span"])
    for bi, t in accs:
        a = tm.operand(t["args"][1])
        elem = [x for x in T.walk(a) if x[0] == "f" and T.canon(x)[2] == 1 and any(
            y[0] == "call" and y[1].endswith("::next") for y in T.walk(x[1]))]
        rep.check(bool(elem), rule, "search_best|access-arg", "access is given the cached tree id (element.1)",
                  "access is called with %s, not with the cached tree id of the element" % T.show(a)[:120], t["span"])
        # unconditional in the iteration
        for s in info[3]:
            r = cfg.reachable_from(b, s, stop={bi})
            rep.check(h not in r, rule, "search_best|access-every-candidate", "every cached candidate is tried",
                      "a cached candidate can be skipped without calling access", t["span"])
    for a, d in exits:
        if a == info[1] and d in info[2]:
            continue
        r = cfg.reachable_from(b, d)
        if not any(b.term(x)["k"] == "return" for x in r):
            continue
        ok_edge = False
        for s in [a] + [s for s, _ in lib.controlling_edges(b, d)[-3:]]:
            if b.term(s)["k"] != "switch":
                continue
            c = tm.operand(b.term(s)["discr"])
            if c[0] == "discr" and any(x[0] == "call" and x[1].endswith("ops::function::Fn::call") for x in T.walk(c)):
                ok_edge = True
        from props.c10 import early_exit_has_result
        ok_edge = early_exit_has_result(b, prog, d, accs)     # Ok, or an error other than Memory
        rep.check(ok_edge, rule, "search_best|consume-early-exit", "left early only with a non-Memory access result",
                  "the consuming loop can be left at bb%d -> bb%d without an access result: the remaining candidates are not tried" % (a, d),
                  b.term(a).get("span"))


def _range_of(t):
    """(start_term|None, end_linear|None, 'N' if open end) for the index expression of an index_mut call argument."""
    t = T.strip_refs(t)
    zero = ({}, 0)
    if t[0] == "call" and t[1] == "core::ops::range::RangeInclusive::new":
        e = T.linear(t[2][1])
        return T.linear(t[2][0]), (T._lin_add(e, ({}, 1), 1) if e else None)
    if t[0] == "agg" and "::Range::Range" in t[1] and len(t[2]) == 2:
        return T.linear(t[2][0]), T.linear(t[2][1])
    if t[0] == "agg" and "RangeToInclusive" in t[1]:
        e = T.linear(t[2][0])
        return zero, (T._lin_add(e, ({}, 1), 1) if e else None)
    if t[0] == "agg" and "RangeTo" in t[1]:
        return zero, T.linear(t[2][0])
    if t[0] == "agg" and "RangeFrom" in t[1]:
        return T.linear(t[2][0]), "N"
    return None, None


def add_model(prog):
    """Terms of SortedBuffer::add: L (index of the first free slot or N), stores and rotations."""
    b = lib.need_body(prog, ADD)
    tm = T.Terms(b, prog)
    m = {"b": b, "tm": tm, "L": None, "stores": [], "rots": []}
    for bi, t in b.calls_to("core::option::Option::unwrap_or"):
        a = tm.operand(t["args"][0])
        if a[0] == "call" and a[1].endswith("::position"):
            clos = [x for x in T.walk(a[2][1]) if x[0] == "agg" and x[1].startswith("closure:")]
            cb = prog.body(clos[0][1][len("closure:"):]) if clos else None
            if cb is not None:
                ctm = T.Terms(cb, prog)
                rets = [ctm.call_term(rb) if si == "term" else ctm.rvalue(rv) for rb, si, rv in lib.assignments_to_return(cb)]
                whole = not any(x[0] == "call" and x[1].endswith("::index") for x in T.walk(a[2][0]))
                if len(rets) == 1 and rets[0][0] == "call" and rets[0][1] == "core::option::Option::is_none" and whole:
                    d = tm.operand(t["args"][1])
                    if d[0] == "k" or (d[0] == "call" and d[1] == "slice::len"):
                        m["L"] = T.linear(tm.call_term(bi))
                        m["L_block"] = bi
    if m["L"] is None:
        # `match position(is_none) { Some(i) => i, None => N }`: a local with exactly these two definitions
        for l_ in range(b.arg_count + 1, len(b.locals)):
            wd = b.whole_defs(l_)
            if len(wd) != 2 or len(b.defs().get(l_, [])) != 2 or b.local_ty(l_) != "usize":
                continue
            ds = [tm.call_term(dbi) if dsi == "term" else tm.rvalue(b.blocks[dbi]["stmts"][dsi]["rv"]) for dbi, dsi in wd]
            caps = [d for d in ds if d[0] == "k"]
            pos = [d for d in ds if d[0] == "f" and d[1][0] == "as" and d[1][2] == "Some" and d[1][1][0] == "call" and d[1][1][1].endswith("::position")]
            if len(caps) == 1 and len(pos) == 1:
                pc = pos[0][1][1]
                clos = [x for x in T.walk(pc[2][1]) if x[0] == "agg" and x[1].startswith("closure:")]
                cb = prog.body(clos[0][1][len("closure:"):]) if clos else None
                whole = not any(x[0] == "call" and x[1].endswith("::index") for x in T.walk(pc[2][0]))
                if cb is not None and whole:
                    ctm = T.Terms(cb, prog)
                    rets = [ctm.call_term(rb) if si == "term" else ctm.rvalue(rv) for rb, si, rv in lib.assignments_to_return(cb)]
                    if len(rets) == 1 and rets[0][0] == "call" and rets[0][1] == "core::option::Option::is_none":
                        m["L"] = T.linear(("l", l_))
    for bi, si, s in b.stmts():
        if s["k"] != "assign":
            continue
        proj = s["place"].get("p") or []
        if proj and proj[-1]["k"] == "index" and any(e["k"] == "field" and e.get("n") == "buffer" for e in proj):
            rv = tm.rvalue(s["rv"])
            m["stores"].append((bi, T.linear(tm.local(proj[-1]["l"])), rv, s["span"]))
    for name, d in (("slice::rotate_right", "right"), ("slice::rotate_left", "left")):
        for bi, t in b.calls_to(name):
            recv = T.strip_refs(tm.operand(t["args"][0]))
            k = T.const_val(tm.operand(t["args"][1]))
            rng = (None, None)
            if recv[0] == "call" and recv[1].endswith("::index_mut"):
                rng = _range_of(recv[2][1])
            m["rots"].append((bi, d, k, rng, t["span"]))
    return m


def r_evict_worst(rep, prog, sd):
    rule = "R-EVICT-WORST"
    rep.rule(rule, "SortedBuffer::add: an insertion into a non-full buffer keeps every element (the free slot takes part in the rotation); "
                   "a full buffer gives up the element at the end that is consumed last (recognised rotate-and-store idioms only)")
    m = add_model(prog)
    b, tm, L = m["b"], m["tm"], m["L"]
    if L is None or not m["stores"]:
        rep.note("R-EVICT-WORST undecided: SortedBuffer::add does not use the `first free slot` / rotate-and-store idiom")
        rep.check(True, rule, "add|idiom", "undecided (unrecognised implementation)")
        return
    rep.ok(rule, "add|len", "len = index of the first free slot, or the capacity")
    lin_eq = lambda x, y: x is not None and y is not None and x == y
    plus1 = T._lin_add(L, ({}, 1), 1)
    decided = 0
    for sb, idx, rv, span in m["stores"]:
        # guard polarity of `len < N` on the way to the store
        full = None
        for s, d in lib.controlling_edges(b, sb):
            c = tm.operand(b.term(s)["discr"])
            pol = lib.bool_edge_polarity(b, s, d)
            cmp_ = lib.normalize_cmp(c) if c[0] == "bin" else None
            if not cmp_ or pol is None:
                continue
            lhs, rel, rhs = cmp_ if pol else lib.negate_rel(cmp_)
            if rel in ("gt", "ge"):
                lhs, rhs, rel = rhs, lhs, {"gt": "lt", "ge": "le"}[rel]
            capN = T.strip_casts(rhs)[0] == "k" or T.strip_casts(lhs)[0] == "k"
            if capN and lin_eq(T.linear(lhs), L) and rel == "lt":
                full = False
            elif capN and lin_eq(T.linear(rhs), L) and rel == "le":
                full = True          # N <= len
        rots = [r for r in m["rots"] if sb in cfg.reachable_from(b, r[0])]
        for rb, d, k, (a, e), rspan in rots:
            if k != 1 or a is None or e is None:
                continue
            if d == "right" and lin_eq(a, idx) and lin_eq(e, L):
                decided += 1
                rep.violation(rule, "add|rotation-stops-before-free-slot",
                              "rotate_right over [pos..len) followed by a store at pos: the rotation moves element len-1 to pos, where it is "
                              "overwritten - an insertion before an existing element loses the greatest element, and a full buffer "
                              "evicts its greatest element, the one the search tries first", rspan)
            elif d == "right" and lin_eq(a, idx) and lin_eq(e, plus1):
                decided += 1
                rep.check(full is False, rule, "add|insert-keeps-all", "non-full: rotate [pos..=len] right, store at pos (nothing is lost)",
                          "the inserting rotation over [pos..=len] is not guarded by len < N", rspan)
            elif d == "right" and lin_eq(a, idx) and e == "N":
                decided += 1
                rep.check(full is not True or sd == "desc", rule, "add|full-evicts-worst", "drops the last element (worst for descending storage)",
                          "a full ascending buffer rotates [pos..] right and stores at pos: the greatest element, which the search tries "
                          "first, is evicted", rspan)
            elif d == "left" and a == ({}, 0) and lin_eq(e, T._lin_add(idx, ({}, 1), 1) if idx else None):
                decided += 1
                rep.check(sd != "desc", rule, "add|full-evicts-worst", "full: rotate [..pos] left, store at pos-1 (element 0, the smallest, is given up)",
                          "a descending buffer gives up element 0, its greatest element", rspan)
                # ... and for every value that beats the current worst (pos > 0), nothing stricter
                extra = []
                for s2, d2 in lib.controlling_edges(b, sb):
                    c2 = tm.operand(b.term(s2)["discr"])
                    pol2 = lib.bool_edge_polarity(b, s2, d2)
                    cmp2 = lib.normalize_cmp(c2) if c2[0] == "bin" else None
                    if not cmp2 or pol2 is None:
                        extra.append(T.show(c2)[:60])
                        continue
                    l2, r2, h2 = cmp2 if pol2 else lib.negate_rel(cmp2)
                    if r2 in ("gt", "ge"):
                        l2, h2, r2 = h2, l2, {"gt": "lt", "ge": "le"}[r2]
                    is_len_guard = (T.strip_casts(h2)[0] == "k" or T.strip_casts(l2)[0] == "k") and (lin_eq(T.linear(l2), L) or lin_eq(T.linear(h2), L))
                    pos_gt0 = lin_eq(T.linear(h2), idx and T._lin_add(idx, ({}, 1), 1)) and (
                        (r2 == "lt" and T.const_val(l2) == 0) or (r2 == "le" and T.const_val(l2) == 1))
                    ne0 = r2 == "ne" and 0 in (T.const_val(l2), T.const_val(h2))
                    if not (is_len_guard or pos_gt0 or ne0):
                        extra.append("%s %s %s" % (T.show(l2)[:40], r2, T.show(h2)[:40]))
                rep.check(not extra, rule, "add|full-keeps-better", "a full buffer takes every value that beats its smallest element (pos > 0)",
                          "in a full buffer the new value is only stored under the additional condition `%s`: a candidate that is better "
                          "than the worst remembered one is dropped" % "; ".join(extra), rspan)
                rep.check(full is True, rule, "add|evict-only-when-full",
                          "eviction happens only when the buffer is full",
                          "the evicting rotation is not restricted to a full buffer (len < N is not false on the way to it)", rspan)
    if decided == 0:
        rep.note("R-EVICT-WORST undecided: no recognised rotate-and-store idiom in SortedBuffer::add")
        rep.check(True, rule, "add|idiom", "undecided (no recognised rotate-and-store idiom)")


def p_sorted_buffer_guards(rep, prog, rule="P-SORTED-BUFFER"):
    """C09 premise of the ledger entry for SortedBuffer::add: every slicing / index / subtraction there is
    covered by the guard that makes it in range (len <= N and pos <= len come from Iterator::position)."""
    rep.rule(rule, "SortedBuffer::add: pos = position over buffer[..len] defaulting to len (so pos <= len <= N); [pos..=len] and the "
                   "store at pos only under len < N; [..pos], rotate_left(1) and pos - 1 only under pos > 0")
    m = add_model(prog)
    b, tm, L = m["b"], m["tm"], m["L"]
    rep.saw(ADD)
    if L is None:
        rep.violation(rule, "add|len", "len is not `position(is_none).unwrap_or(N)`: the in-range argument for the slicing in "
                      "SortedBuffer::add has to be reviewed again", b.span)
        return
    rep.ok(rule, "add|len", "len = position(is_none).unwrap_or(N) <= N")

    def guards(bi):
        out = set()
        for s, d in lib.controlling_edges(b, bi):
            c = tm.operand(b.term(s)["discr"])
            pol = lib.bool_edge_polarity(b, s, d)
            cmp_ = lib.normalize_cmp(c) if c[0] == "bin" else None
            if not cmp_ or pol is None:
                continue
            lhs, rel, rhs = cmp_ if pol else lib.negate_rel(cmp_)
            if rel in ("gt", "ge"):
                lhs, rhs, rel = rhs, lhs, {"gt": "lt", "ge": "le"}[rel]
            if rel == "lt" and T.linear(lhs) == L and T.strip_casts(rhs)[0] == "k":
                out.add("len<N")
            cv = T.const_val(lhs)
            if rel == "lt" and cv is not None and cv >= 0:
                out.add(("pos>0", repr(T.linear(rhs))))
            if rel == "le" and cv is not None and cv >= 1:
                out.add(("pos>0", repr(T.linear(rhs))))
        return out
    # pos: unwrap_or(position(iter(index(buffer, ..len)), _), len)
    P = None
    for bi, t in b.calls_to("core::option::Option::unwrap_or"):
        a = tm.operand(t["args"][0])
        if a[0] == "call" and a[1].endswith("::position") and any(x[0] == "call" and x[1].endswith("::index") for x in T.walk(a[2][0])):
            rng = [x for x in T.walk(a[2][0]) if x[0] == "agg" and "RangeTo" in x[1]]
            dflt = T.linear(tm.operand(t["args"][1]))
            good = bool(rng) and T.linear(rng[0][2][0]) == L and dflt == L
            rep.check(good, rule, "add|pos", "pos = position over buffer[..len], default len: pos <= len",
                      "pos is not bounded by len (searched range or default changed)", t["span"])
            P = T.linear(tm.call_term(bi))
    if P is None:
        rep.violation(rule, "add|pos", "pos is not `position over buffer[..len]` defaulting to len", b.span)
        return
    n = 0
    for bi, d, k, (a, e), span in m["rots"]:
        g = guards(bi)
        n += 1
        if e is not None and e != "N" and e == T._lin_add(L, ({}, 1), 1):
            rep.check("len<N" in g, rule, "add|slice-to-len-inclusive", "[..=len] only under len < N",
                      "buffer[..=len] is sliced without the guard len < N: out of range when the buffer is full", span)
        elif e is not None and e != "N" and e in (L, P):
            rep.ok(rule, "add|slice|%s" % d, "end <= len <= N", span)
        elif e == "N":
            rep.ok(rule, "add|slice|%s" % d, "open end", span)
        else:
            rep.violation(rule, "add|slice|%s" % d, "slice bound of the rotation is not len, len + 1 or pos: in-range argument missing", span)
        if d == "left" or (a is not None and a != P and a != ({}, 0)):
            pass
        # rotate_x(1) needs a non-empty slice
        if a == ({}, 0) and e == P:
            rep.check(("pos>0", repr(P)) in g, rule, "add|rotate-nonempty|%s" % d, "[..pos].rotate(1) only under pos > 0",
                      "rotate(1) on buffer[..pos] without the guard pos > 0: panics on an empty slice", span)
    for sb, idx, rv, span in m["stores"]:
        g = guards(sb)
        if idx == P:
            rep.check("len<N" in g, rule, "add|store-at-pos", "buffer[pos] only under len < N (pos <= len < N)",
                      "buffer[pos] is written without the guard len < N: pos can equal N", span)
        elif idx == T._lin_add(P, ({}, 1), -1):
            rep.check(("pos>0", repr(P)) in g, rule, "add|store-at-pos-1", "buffer[pos - 1] only under pos > 0",
                      "buffer[pos - 1] is written without the guard pos > 0: the subtraction overflows", span)
        else:
            rep.violation(rule, "add|store", "store index is neither pos nor pos - 1: in-range argument missing", span)
    rep.floor(rule, "rotations + stores in SortedBuffer::add", n + len(m["stores"]), 2)


def run(rep, programs):
    prog = programs["core"]
    rep.assume("`best` means greatest by the derived Ord of the cached key (Policy, bool); whether that order matches the intent of the "
               "ratings is not decided")
    r_candidate_key(rep, prog)
    r_ordby(rep, prog)
    r_best_first(rep, prog)
    sd, _, _ = storage_direction(prog)
    if sd and key_reversed(prog):
        sd = {"asc": "desc", "desc": "asc"}[sd]
    r_evict_worst(rep, prog, sd)


def r_policy_order(rep, prog):
    """The candidate key is a Policy: "best first" means greatest by Policy's Ord. The derived order is structural (variant order,
    then the Match priority) and so distinguishes every two different ratings. A hand-written order is accepted as *undecided*
    unless it visibly collapses ratings: a lossy operation on the Match priority makes different ratings compare Equal, and then
    neither "keeps the best" nor "best first" holds among them."""
    rule = "R-POLICY-ORDER"
    rep.rule(rule, "Policy's Ord / PartialOrd are the derived structural order, or a hand-written order that applies no lossy "
                   "operation (min, max, clamp, saturating_*, >>, &, /, %) to the Match priority")
    lossy_calls = ("::min", "::max", "::clamp", "saturating_sub", "saturating_add", "wrapping_sub", "wrapping_add")
    lossy_bins = ("Shr", "BitAnd", "Div", "Rem")
    for tr, key in (("core::cmp::Ord>::cmp", "Policy|cmp"), ("core::cmp::PartialOrd>::partial_cmp", "Policy|partial_cmp")):
        b = prog.body("<llfree::Policy as %s" % tr)
        if b is None:
            rep.check(True, rule, key, "undecided: no impl found (ordering supplied elsewhere)")
            rep.note("%s: %s not found; undecided" % (rule, key))
            continue
        rep.saw(b.name)
        derived = bool((b.span or {}).get("m")) and any(m in ("Ord", "PartialOrd") for m in b.span.get("m"))
        if derived:
            rep.check(True, rule, key, "derived (structural order: variant, then Match priority)")
            continue
        # hand-written: look through the helpers it calls for a lossy operation on the Match payload
        seen, todo, bad = set(), [b], None
        while todo and bad is None:
            cur = todo.pop()
            if cur.name in seen:
                continue
            seen.add(cur.name)
            tm = T.Terms(cur, prog)
            for bi, si, s in cur.stmts():
                if s["k"] == "assign" and s["rv"]["k"] == "binop" and s["rv"]["op"] in lossy_bins:
                    t = tm.rvalue(s["rv"])
                    if any(isinstance(x, tuple) and x and x[0] == "as" and x[-1] == "Match" for x in T.walk(t)):
                        bad = (s.get("span"), s["rv"]["op"])
            for bi, t in cur.calls():
                cn = callee_name(t["callee"]) or ""
                args = [tm.operand(a) for a in t["args"]]
                on_payload = any(isinstance(x, tuple) and x and x[0] == "as" and x[-1] == "Match" for a in args for x in T.walk(a))
                if on_payload and any(cn.endswith(s_) or s_ in cn for s_ in lossy_calls):
                    bad = (t.get("span"), cn)
                cb = prog.body(cn)
                if cb is not None and cb.crate.name == "llfree" and "Policy" in cn:
                    todo.append(cb)
        if bad is not None:
            rep.violation(rule, key, "the hand-written order of Policy applies a lossy operation (%s) to the Match priority: different "
                          "ratings compare Equal, so the candidate buffer neither keeps nor tries the better one first" % bad[1], bad[0])
        else:
            rep.check(True, rule, key, "undecided: hand-written order without a visible lossy operation")
            rep.note("%s: %s is hand-written; that it distinguishes all ratings is undecided" % (rule, key))


_run_c16 = run


def run(rep, programs):  # noqa: F811
    _run_c16(rep, programs)
    r_policy_order(rep, programs["core"])


EXPLANATION = EXPLANATION + (
    " R-POLICY-ORDER: Policy's Ord/PartialOrd are the derived structural order, or a hand-written one without a lossy operation on the Match priority (otherwise undecided)."
)
