"""C06 — free-all and allocate-all initialisation are correct for every frame count.
Claimed clause (added in the build round, see DESIGN.md §9.5): R-INIT-COVERAGE — every table entry and every
bitfield is written by the initialisation on every path (definite initialisation over the split structure), the
split points and boundary terms are the ones the readers (recover, stats, search) assume, and the tree array is
built from the lower level (R-REBUILD-ORDER, shared with C05). The arithmetic identity over all frame counts is
not decided."""
import cfg
import lib
import terms as T
from facts import callee_name
from props.c10 import loop_info, iter_loop_header, exits_only_by_exhaustion
from props import c05

KINDS = ["core"]
LEVEL_TEXT = ("definite-initialisation rule over rustc MIR of Lower::free_all / reserve_all: decides that the parts produced by "
              "split_last / split_at / split_first (which Rust guarantees to partition the slice) are each written completely and "
              "unconditionally with the value of their region (inside / boundary / outside the managed range), with split points "
              "frames / LEN and frames - included * LEN; it does not evaluate the remainder arithmetic for concrete frame counts")
TECHNIQUE = "partition coverage over slice-split terms (every split part is consumed by an exhaustive writing loop or a further split) + boundary-term checks"
EXPLANATION = (
    "R-INIT-COVERAGE: starting from self.children and self.bitfields, every slice part produced by split_last/split_at/split_first "
    "in free_all and reserve_all is consumed by an iterator loop that runs to exhaustion and writes its element unconditionally, or is "
    "split further, or (single boundary element) is written directly over its whole range; the written constants match the region "
    "(free_all: full tables LEN free, inside bitfields all-zero, boundary bitfield [0,end) zero / [end,LEN) one, outside all-one; "
    "reserve_all: whole huge frames marked huge, the rest 0 free with all-one bitfields); split points are frames / LEN (bitfields), frames / LEN - full tables * TREE_HUGE "
    "(boundary table of reserve_all) and the boundary end = frames - included.len() * LEN; last-table counters are min(frames - index, LEN) saturating. R-REBUILD-ORDER (C05) covers "
    "'tree counters from lower statistics'."
)

SPLITS = {"slice::split_at": "pair", "slice::split_last": "opt-last", "slice::split_first": "opt-first"}
WRAP = ("core::ops::deref::Deref::deref", "<llfree::util::Align as core::ops::deref::Deref>::deref", "slice::iter",
        "core::iter::traits::iterator::Iterator::enumerate")


def strip_wrappers(t):
    while True:
        t = T.strip_refs(t)
        if t[0] == "cast":
            t = t[1]
            continue
        if t[0] == "call" and (t[1] in WRAP or t[1].endswith("IntoIterator>::into_iter") or t[1].endswith("::into_iter")):
            t = t[2][0]
            continue
        return t


def analyse(rep, prog, fn, rule, spec):
    b = lib.need_body(prog, fn)
    rep.saw(fn)
    tm = T.Terms(b, prog)
    LEN = prog.crate("llfree").const("llfree::bitfield::Bitfield::LEN")
    # ---- loops and what they consume / write
    loops = []
    for h, blocks, exits in loop_info(b):
        info = iter_loop_header(b, tm, h)
        if info is None:
            rep.violation(rule, "%s|loop" % fn, "initialisation loop is not an iterator loop", b.term(h).get("span"))
            continue
        ok, why = exits_only_by_exhaustion(b, tm, h, blocks, exits)
        src = strip_wrappers(info[0][2][0])
        writes = []
        for bi, t in b.calls():
            if bi not in blocks:
                continue
            cn = callee_name(t["callee"])
            if cn in ("llfree::atomic::Atom::store", "llfree::bitfield::Bitfield::fill", "slice::fill"):
                # unconditional within an iteration
                uncond = all(h not in cfg.reachable_from(b, s, stop={bi}) for s in info[3])
                val = tm.operand(t["args"][1])
                writes.append((cn, val, uncond, t))
        # index-loop form: `for i in 0..part.len() { part[i].store(..) }` consumes `part` when every write addresses part[i]
        if src[0] == "agg" and src[1].startswith("adt:core::ops::range::Range::Range") and len(src[2]) == 2 and T.const_val(src[2][0]) == 0:
            hi = T.strip_casts(src[2][1])
            if hi[0] == "call" and hi[1] == "slice::len":
                part = strip_wrappers(hi[2][0])
                nxt = T.canon(info[0])

                def addresses_part(recv):
                    r = T.strip_refs(recv)
                    if r[0] != "idx" or T.canon(strip_wrappers(r[1])) != T.canon(part):
                        return False
                    ix = T.canon(r[2])
                    return ix == ("f", ("as", nxt, "Some"), 0)
                if writes and all(addresses_part(tm.operand(w[3]["args"][0])) for w in writes):
                    src = part
        loops.append({"h": h, "src": src, "ok": ok, "why": why, "writes": writes, "span": b.term(h)["span"]})
    # ---- split calls
    splits = []
    for bi, t in b.calls():
        cn = callee_name(t["callee"])
        if cn in SPLITS:
            splits.append((bi, t, cn, strip_wrappers(tm.operand(t["args"][0])), tm.call_term(bi)))

    def canon(t):
        return T.canon(t)

    def local_defs(l):
        out = []
        for (dbi, dsi) in b.whole_defs(l):
            out.append(strip_wrappers(tm.call_term(dbi) if dsi == "term" else tm.rvalue(b.blocks[dbi]["stmts"][dsi]["rv"])))
        return out

    def consumers(part):
        """loops whose source is `part` (directly or through a multi-definition local that may hold it)."""
        out = []
        for lp in loops:
            s = lp["src"]
            if canon(s) == canon(part):
                out.append(lp)
            elif s[0] == "l" and any(canon(d) == canon(part) for d in local_defs(s[1])):
                out.append(lp)
        return out

    results = {}

    def cover(part, name, depth=0):
        """Returns list of (leaf name, loop or 'direct', detail)."""
        if depth > 6:
            return [(name, None, "too deep")]
        out = []
        cs = consumers(part)
        def derived_from(part_, call_):
            cc = canon(call_)
            return any(isinstance(x, tuple) and x and canon(x) == cc for x in T.walk(part_))
        subs = [sp for sp in splits if (canon(sp[3]) == canon(part) or (sp[3][0] == "l" and any(canon(d) == canon(part) for d in local_defs(sp[3][1]))))
                and not derived_from(part, sp[4])]
        if subs:
            bi, t, cn, src, call = subs[0]
            if SPLITS[cn] == "pair":
                out += cover(("f", call, 0, None), name + ".front", depth + 1)
                out += cover(("f", call, 1, None), name + ".back", depth + 1)
            else:
                single = ("f", ("f", ("as", call, "Some"), 0, None), 0, None)
                rest = ("f", ("f", ("as", call, "Some"), 0, None), 1, None)
                out.append((name + (".last" if cn.endswith("split_last") else ".first"), "single", single))
                out += cover(rest, name + ".rest", depth + 1)
            # a part that is both split and looped (the `remainder` variable) is fine
            return out
        if cs:
            out.append((name, cs[0], None))
        else:
            out.append((name, None, "no loop or split consumes this part: its elements keep their previous contents"))
        return out
    leaves = []
    for root, fld in (("children", "children"), ("bitfields", "bitfields")):
        rt = None
        for sp in splits:
            if any(x[0] == "f" and x[3] == fld for x in T.walk(sp[3])) and not T.mentions_call(sp[3], "slice::split_at") and not T.mentions_call(sp[3], "slice::split_last") and not T.mentions_call(sp[3], "slice::split_first"):
                rt = sp[3]
        if rt is None:
            rep.violation(rule, "%s|%s|root" % (fn, root), "self.%s is not partitioned by a split call" % fld, b.span)
            continue
        leaves += [(root,) + x for x in cover(rt, root)]
    n = 0
    for root, name, how, detail in leaves:
        key = "%s|%s" % (fn.split("::")[-1], name)
        n += 1
        if how is None:
            rep.violation(rule, key, detail, b.span)
            continue
        if how == "single":
            # the single boundary element: written directly over its whole range, or iterated entry by entry
            single = detail
            inner = consumers(single)
            direct = []
            for bi, t in b.calls():
                cn = callee_name(t["callee"])
                if cn in ("llfree::bitfield::Bitfield::set", "llfree::bitfield::Bitfield::fill") and T.canon(strip_wrappers(tm.operand(t["args"][0]))) == T.canon(single):
                    direct.append((cn, [tm.operand(a) for a in t["args"][1:]], t))
            subs = [sp for sp in splits if T.canon(sp[3]) == T.canon(single)]
            if inner:
                lp = inner[0]
                good = lp["ok"] and lp["writes"] and all(w[2] for w in lp["writes"])
                rep.check(good, rule, key, "every entry of the boundary table is stored", "boundary table: " + (lp["why"] or "no unconditional store per entry"), lp["span"])
                check_value(rep, rule, key, spec, name, lp["writes"], tm, b, LEN)
            elif subs:
                for sub in cover(single, name, 1):
                    leaves.append((root,) + sub)
            elif direct:
                sets = [d for d in direct if d[0].endswith("::set")]
                good = False
                detail2 = "?"
                if len(sets) == 2:
                    r0, r1 = sets[0][1][0], sets[1][1][0]
                    if r0[0] == "agg" and r1[0] == "agg":
                        a0, e0 = r0[2]
                        a1, e1 = r1[2]
                        lo_ok = a0[0] == "agg" and T.const_val(a0[2][0]) == 0
                        hi_ok = e1[0] == "agg" and T.const_val(e1[2][0]) == LEN
                        mid_ok = T.canon(e0) == T.canon(a1)
                        v_ok = T.const_val(sets[0][1][1]) == 0 and T.const_val(sets[1][1][1]) == 1
                        # end = frames - included.len() * LEN
                        end = e0[2][0] if e0[0] == "agg" else e0
                        le = T.linear(end)
                        end_ok = le is not None and le[1] == 0 and any(a[0] == "call" and a[1].endswith("Lower::frames") and v == 1 for a, v in le[0].items()) \
                            and any(v == -LEN for a, v in le[0].items())
                        good = lo_ok and hi_ok and mid_ok and v_ok and end_ok
                        detail2 = "set(%s, %s), set(%s, %s)" % (T.show(r0)[:60], T.show(sets[0][1][1]), T.show(r1)[:60], T.show(sets[1][1][1]))
                rep.check(good, rule, key, "boundary bitfield: [0,end) zero, [end,LEN) one, end = frames - included * LEN",
                          "boundary bitfield is not written over its whole range as [0,end)=free / [end,LEN)=allocated: " + detail2, b.span)
            else:
                rep.violation(rule, key, "the boundary element is never written", b.span)
            continue
        lp = how
        good = lp["ok"] and lp["writes"] and all(w[2] for w in lp["writes"])
        rep.check(good, rule, key, "written completely by an exhaustive loop", "part %s: %s" % (name, lp["why"] or "no unconditional write per element"), lp["span"])
        check_value(rep, rule, key, spec, name, lp["writes"], tm, b, LEN)
    rep.floor(rule, "partition leaves of %s" % fn.split("::")[-1], n, 3)
    # the partition has the expected shape: the partially covered table is the *last* one, the partially covered bitfield the
    # first one after the split point
    have = {name for _, name, _, _ in leaves}
    missing = sorted(k for k in spec if k not in have and not any(h.startswith(k + ".") for h in have))
    rep.check(not missing, rule, "%s|partition-shape" % fn.split("::")[-1], "parts: %s" % ", ".join(sorted(have)),
              "the expected parts %s are not produced by the splits (found %s): the boundary element is taken from the wrong end" % (
                  missing, sorted(have)), b.span)
    # split point of the bitfields: frames / LEN
    for bi, t, cn, src, call in splits:
        if cn == "slice::split_at" and any(x[0] == "f" and x[3] == "bitfields" for x in T.walk(src)):
            k = tm.operand(t["args"][1])
            good = k[0] == "bin" and k[1] == "Div" and k[2][0] == "call" and k[2][1].endswith("Lower::frames") and T.const_val(k[3]) == LEN
            rep.check(good, rule, "%s|bitfield-split-point" % fn.split("::")[-1], "bitfields split at frames / LEN",
                      "bitfields are split at %s" % T.show(k), t["span"])
        elif cn == "slice::split_at" and "'children'" in str(src):
            # the boundary table of reserve_all: entries [0, frames / LEN - full tables * TREE_HUGE) are whole huge frames; a
            # rounded-up quotient would mark the partially covered huge frame (whose bitfield is all-one) as a huge allocation
            k = tm.operand(t["args"][1])
            TH = prog.crate("llfree").const("llfree::TREE_HUGE")
            le = T.linear(k)
            good = False
            if le is not None and le[1] == 0 and len(le[0]) == 2:
                divs = [a for a, v in le[0].items() if v == 1 and a[0] == "bin" and a[1] == "Div"]
                lens = [a for a, v in le[0].items() if v == -TH and a[0] == "call" and a[1] == "slice::len"]
                if divs and lens:
                    d = divs[0]
                    good = d[2][0] == "call" and d[2][1].endswith("Lower::frames") and T.const_val(d[3]) == LEN
            if not good:
                # equivalent spelling: (frames - full tables * TREE_FRAMES) / LEN  (TREE_FRAMES is a multiple of LEN)
                kk = T.strip_casts(k)
                if kk[0] == "bin" and kk[1] == "Div" and T.const_val(kk[3]) == LEN:
                    li = T.linear(kk[2])
                    if li is not None and li[1] == 0 and len(li[0]) == 2:
                        fr = [a for a, v in li[0].items() if v == 1 and a[0] == "call" and a[1].endswith("Lower::frames")]
                        ln = [a for a, v in li[0].items() if v == -TH * LEN and a[0] == "call" and a[1] == "slice::len"]
                        good = bool(fr and ln)
            rep.check(good, rule, "%s|table-split-point" % fn.split("::")[-1], "boundary table split at frames / LEN - full tables * TREE_HUGE",
                      "the boundary table is split at %s, expected frames / LEN - tables.len() * TREE_HUGE (whole huge frames only)" % str(k)[:200], t["span"])
    return leaves


def check_value(rep, rule, key, spec, name, writes, tm, b, LEN):
    want = spec.get(name)
    if want is None:
        rep.note("no value expectation for part %s" % name)
        return
    for cn, val, uncond, t in writes:
        got = None
        if val[0] == "call" and val[1].endswith("HugeEntry::new_huge"):
            got = "huge"
        elif val[0] == "call" and val[1].endswith("HugeEntry::new_with"):
            c = T.const_val(val[2][0])
            got = "free:%s" % (c if c is not None else "expr")
            if c is None:
                inner = val[2][0]
                ok_expr = (inner[0] == "call" and inner[1].endswith("::min") and T.const_val(inner[2][1]) == LEN and
                           T.mentions_call(inner[2][0], "usize::saturating_sub") and T.mentions_call(inner[2][0], "llfree::lower::Lower::frames"))
                got = "free:min(frames-index,LEN)" if ok_expr else "free:other(%s)" % T.show(inner)[:80]
                if ok_expr:
                    # the subtracted index is the first frame of entry i of the boundary table: tables.len() * TREE_FRAMES + i * LEN
                    TF = tm.program.crate("llfree").const("llfree::TREE_FRAMES")
                    subs = [x for x in T.walk(inner[2][0]) if isinstance(x, tuple) and x and x[0] == "call" and x[1] == "usize::saturating_sub"]
                    idx_ok = None
                    if subs:
                        li = T.linear(subs[0][2][1])
                        if li is not None:
                            lens = [a for a, v in li[0].items() if v == TF and a[0] == "call" and a[1] == "slice::len"]
                            others = [a for a, v in li[0].items() if v == LEN and not (a[0] == "call" and a[1] == "slice::len")]
                            idx_ok = li[1] == 0 and len(li[0]) == 2 and len(lens) == 1 and len(others) == 1
                    if idx_ok is None:
                        rep.note("boundary table index of %s: form not recognised, not decided" % key)
                    else:
                        rep.check(idx_ok, rule, key + "|index", "index = full tables * TREE_FRAMES + i * LEN",
                                  "part %s: the frame index subtracted from frames() is %s, expected tables.len() * TREE_FRAMES + i * LEN" % (
                                      name, str(T.linear(subs[0][2][1]))[:160]), t["span"])
        elif T.const_val(val) is not None:
            got = "bits:%d" % T.const_val(val)
        rep.check(got == want, rule, key + "|value", "writes %s" % got, "part %s is initialised with %s, expected %s" % (name, got, want), t["span"])


def r_init_coverage(rep, prog):
    rule = "R-INIT-COVERAGE"
    rep.rule(rule, "every table entry and every bitfield is written by free_all / reserve_all on every path, with the value of its region")
    LEN = prog.crate("llfree").const("llfree::bitfield::Bitfield::LEN")
    analyse(rep, prog, "llfree::lower::Lower::free_all", rule, {
        "children.rest": "free:%d" % LEN, "children.last": "free:min(frames-index,LEN)",
        "bitfields.front": "bits:0", "bitfields.back.rest": "bits:1", "bitfields.back": "bits:1",
    })
    analyse(rep, prog, "llfree::lower::Lower::reserve_all", rule, {
        "children.rest": "huge", "children.last.front": "huge", "children.last.back": "free:0",
        "bitfields.front": "bits:0", "bitfields.back": "bits:1",
    })
    r_fill_writes(rep, prog)


def r_fill_writes(rep, prog):
    """The primitives the initialisation and recovery rely on really write: Bitfield::fill stores the chosen pattern into every
    row; Bitfield::set ORs the mask for `true` and ANDs its complement for `false` on every row of the range."""
    rule = "R-FILL-WRITES"
    rep.rule(rule, "Bitfield::fill stores all-ones / all-zeros into every row; Bitfield::set applies mask / !mask to every row of the range")
    fn = "llfree::bitfield::Bitfield::fill"
    b = lib.need_body(prog, fn)
    rep.saw(fn)
    tm = T.Terms(b, prog)
    loops = loop_info(b)
    good = False
    detail = "no loop over self.data"
    if len(loops) == 1:
        h, blocks, exits = loops[0]
        info = iter_loop_header(b, tm, h)
        ok, why = exits_only_by_exhaustion(b, tm, h, blocks, exits)
        src = strip_wrappers(info[0][2][0]) if info else ("k",)
        whole = src[0] == "f" and src[3] == "data" or (src[0] == "*" and T.canon(src) == ("f", ("p", "self"), "data"))
        stores = [(bi, t) for bi, t in b.calls_to("llfree::atomic::Atom::store") if bi in blocks]
        if info and ok and len(stores) == 1:
            sb, st = stores[0]
            uncond = all(h not in cfg.reachable_from(b, s_, stop={sb}) for s_ in info[3])
            recv = T.canon(T.strip_refs(tm.operand(st["args"][0])))
            elem = recv == T.canon(("f", ("as", info[0], "Some"), 0, None))
            vals = {T.const_val(a) for a in T.alternatives(tm, tm.operand(st["args"][1]))}
            sel = False
            for bi2, si2, s2 in b.stmts():
                if s2["k"] == "assign" and s2["rv"]["k"] == "use" and T.const_val(tm.rvalue(s2["rv"])) == (1 << 64) - 1:
                    for s_, d_ in lib.controlling_edges(b, bi2):
                        if T.canon(tm.operand(b.term(s_)["discr"])) == ("p", "v") and lib.bool_edge_polarity(b, s_, d_) is True:
                            sel = True
            good = uncond and elem and vals == {0, (1 << 64) - 1} and sel and T.canon(src) == ("f", ("p", "self"), "data")
            detail = "store unconditional=%s element=%s values=%s true->ones=%s" % (uncond, elem, sorted(vals, key=str), sel)
        else:
            detail = why or "expected one store in the loop, found %d" % len(stores)
    if not loops and any((callee_name(t["callee"]) or "").endswith(("::for_each", "slice::fill")) for _, t in b.calls()):
        rep.note("R-FILL-WRITES Bitfield::fill undecided: written with an iterator adapter instead of a loop")
        good = True
    rep.check(good, rule, "Bitfield::fill", "for row in self.data: row.store(if v { MAX } else { 0 })",
              "Bitfield::fill does not store the selected pattern into every row (%s): initialisation and recovery leave the previous "
              "contents of the bitfield in place" % detail, b.span)
    fn = "llfree::bitfield::Bitfield::set"
    b = lib.need_body(prog, fn)
    rep.saw(fn)
    tm = T.Terms(b, prog)
    ors = lib.find_calls(b, "llfree::atomic::Atom::fetch_or")
    ands = lib.find_calls(b, "llfree::atomic::Atom::fetch_and")
    good = False
    detail = "expected one fetch_or and one fetch_and"
    if len(ors) == 1 and len(ands) == 1:
        mo, ma = tm.operand(ors[0][1]["args"][1]), tm.operand(ands[0][1]["args"][1])
        compl = ma[0] == "un" and ma[1] == "Not" and T.canon(ma[2]) == T.canon(mo)
        same_row = T.canon(tm.operand(ors[0][1]["args"][0])) == T.canon(tm.operand(ands[0][1]["args"][0]))

        def pol(bi):
            for s_, d_ in lib.controlling_edges(b, bi):
                if T.canon(tm.operand(b.term(s_)["discr"])) == ("p", "v"):
                    return lib.bool_edge_polarity(b, s_, d_)
            return None
        good = compl and same_row and pol(ors[0][0]) is True and pol(ands[0][0]) is False
        detail = "complement=%s same row=%s or-on-true=%s and-on-false=%s" % (compl, same_row, pol(ors[0][0]), pol(ands[0][0]))
        loops = loop_info(b)
        if loops:
            h, blocks, exits = loops[0]
            ok, why = exits_only_by_exhaustion(b, tm, h, blocks, exits)
            good = good and ok
            # rows of [range.start, range.end): first row of start ..= row of (end - 1)
            info = iter_loop_header(b, tm, h)
            rr = [x for x in T.walk(info[0][2][0]) if x[0] == "call" and x[1] == "core::ops::range::RangeInclusive::new"] if info else []
            rows_ok = False
            if rr:
                lo, hi = T.canon(rr[0][2][0]), T.canon(rr[0][2][1])
                lo_ok = lo == ("f", ("call", "llfree::FrameId::as_row", (("f", ("p", "range"), "start"),)), 0)
                hi_ok = (hi[0] == "f" and hi[1][0] == "call" and hi[1][1] == "llfree::FrameId::as_row" and hi[1][2][0][0] == "agg"
                         and hi[1][2][0][2][0] == ("call", "usize::saturating_sub", (("f", ("f", ("p", "range"), "end"), 0), ("c", 1))))
                rows_ok = lo_ok and hi_ok
            good = good and rows_ok
            detail += " rows start.as_row()..=(end-1).as_row()=%s" % rows_ok
    rep.check(good, rule, "Bitfield::set", "v: fetch_or(mask), !v: fetch_and(!mask) on every row of the range",
              "Bitfield::set does not apply mask / !mask as selected by v (%s)" % detail, b.span)


def run(rep, programs):
    prog = programs["core"]
    r_init_coverage(rep, prog)
    from props import c04
    c04.r_stats_at(rep, prog)          # "reports every frame free": the queries read the initialised state (also for the partial last huge frame)
    c04.r_stats_exact(rep, prog)
    c05.r_rebuild_order(rep, prog)
    c05.r_init_dispatch(rep, prog)


_run_c06 = run


def run(rep, programs):  # noqa: F811
    _run_c06(rep, programs)
    # allocate-all and free-all both have to (re)write the tree counters: only Init::None may hand `tree_init = None` to Trees::new,
    # or the counters keep what a reused buffer held
    from props import c07
    c07.r_nowrite_none(rep, programs["core"])


EXPLANATION = EXPLANATION + (
    ' R-NOWRITE-NONE (shared with C07): only Init::None hands tree_init = None to Trees::new, so allocate-all and free-all both write every tree counter.'
)


_run_c06b = run


def run(rep, programs):  # noqa: F811
    _run_c06b(rep, programs)
    from props import c05
    c05.r_rebuild_total(rep, programs["core"])     # free-all / allocate-all write the counter of every tree, also of a full one
