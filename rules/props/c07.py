"""C07 — rebuilding from another allocator's metadata is observationally identical.
Claimed clause: assume-initialised mode performs no metadata write and cannot fail on valid
metadata; the buffers handed out by metadata() are the ones new() consumes (R-NOWRITE-NONE,
R-NEW-ERRS, R-META-ROUNDTRIP). DESIGN.md §4 C07."""
import cfg
import lib
import terms as T
from facts import callee_name
from pathsens import PathSens

KINDS = ["core"]
LEVEL_TEXT = ("effect/dominance rules over rustc MIR of the constructors: decides that Init::None writes none of the three "
              "metadata buffers, that construction on valid metadata has no additional failure exit, and that metadata() and "
              "new() agree on which buffer is which and how long it is; behavioural equivalence of the two allocators is not decided")
TECHNIQUE = "may-write effect summaries guarded by the init discriminant, closed-world check of error exits, field/size agreement"
EXPLANATION = (
    "R-NOWRITE-NONE: (a) every may-write call of Lower::new runs only for init != None; (b) every write of Trees::new is dominated by "
    "the Some edge of tree_init; (c) LLFree::new passes tree_init = None exactly when init == Init::None; (d) Locals::new reaches no "
    "write primitive. R-NEW-ERRS: the Err returns of LLFree::new are exactly: valid() failed, Lower::new failed, Locals::new failed. "
    "R-META-ROUNDTRIP: LLFree::metadata() fills MetaData{local,trees,lower} from Locals/Trees/Lower::metadata() respectively, each of "
    "which rebuilds its slice with the length function that new() checked. R-STATE-IN-META: the instance structs (LLFree, Lower, Trees, Locals) hold only references into the three buffers and plain values fixed at construction - no atomic, cell or lock by value, and no &mut self method besides metadata() - so there is no allocator state that metadata() cannot hand over."
)

NEW = "<llfree::llfree::LLFree as llfree::Alloc>::new"


def r_nowrite_none(rep, prog):
    rule = "R-NOWRITE-NONE"
    rep.rule(rule, "Init::None performs no metadata write in Lower::new, Trees::new, Locals::new")
    cg, eff = lib.analyses(prog)
    init_adt = prog.crate("llfree").adts["llfree::Init"]
    NONE = [v["discr"] for v in init_adt["variants"] if v["name"] == "None"][0]
    # (a)
    b = lib.need_body(prog, "llfree::lower::Lower::new")
    rep.saw(b.name)
    ps = PathSens(b, prog)
    il = b.arg_local("init")
    n = 0
    for bi, t in b.calls():
        w = eff.call_may_write(b, t)
        if not w:
            continue
        n += 1
        name = callee_name(t["callee"])
        vals = {env.get(("d", il, ())) for _, env in ps.states_at(bi)}
        rep.check(None not in vals and NONE not in vals, rule, "Lower::new|write|%s" % name,
                  "runs only for init in %s" % sorted(vals, key=str),
                  "%s may write lower metadata in assume-initialised mode (init discriminants reaching it: %s)" % (name, sorted(vals, key=str)),
                  t["span"])
    rep.floor(rule, "may-write calls in Lower::new", n, 2)
    for bi, si, s in b.stmts():
        if s["k"] == "assign" and any(e["k"] == "deref" for e in (s["place"].get("p") or [])):
            ty = s["place"].get("ty") or ""
            if lib.ty_head(ty) in lib.METADATA_HEADS:
                rep.violation(rule, "Lower::new|direct-write", "direct write to metadata in Lower::new: " + ty, s["span"])
    # (b)
    b = lib.need_body(prog, "llfree::trees::Trees::new")
    rep.saw(b.name)
    ps = PathSens(b, prog)
    tl = b.arg_local("tree_init")
    nw = 0
    for bi, si, s in b.stmts():
        if s["k"] == "assign" and any(e["k"] == "deref" for e in (s["place"].get("p") or [])):
            ty = s["place"].get("ty") or ""
            if lib.ty_head(ty) in lib.METADATA_HEADS:
                nw += 1
                vals = {env.get(("d", tl, ())) for _, env in ps.states_at(bi)}
                rep.check(vals == {1}, rule, "Trees::new|write", "entries are written only when tree_init is Some",
                          "Trees::new writes the tree array although tree_init may be None (%s)" % sorted(vals, key=str), s["span"])
    for bi, t in b.calls():
        w = eff.call_may_write(b, t)
        if w:
            nw += 1
            vals = {env.get(("d", tl, ())) for _, env in ps.states_at(bi)}
            rep.check(vals == {1}, rule, "Trees::new|write-call|%s" % callee_name(t["callee"]), "only when tree_init is Some",
                      "Trees::new calls %s (may write) although tree_init may be None" % callee_name(t["callee"]), t["span"])
    rep.floor(rule, "writes in Trees::new", nw, 1)
    # (c)
    b = lib.need_body(prog, NEW)
    rep.saw(NEW)
    tm = T.Terms(b, prog)
    tn = lib.find_calls(b, "llfree::trees::Trees::new")
    if len(tn) != 1:
        rep.violation(rule, "new|trees-new", "expected one Trees::new call", b.span)
    else:
        tb, tt = tn[0]
        arg = tt["args"][2]
        l = arg["place"]["l"] if arg["k"] in ("copy", "move") else None
        # follow one copy
        defs = b.whole_defs(l) if l is not None else []
        if len(defs) == 1 and defs[0][1] != "term":
            s = b.blocks[defs[0][0]]["stmts"][defs[0][1]]
            if s["rv"]["k"] == "use" and s["rv"]["op"]["k"] in ("copy", "move"):
                l = s["rv"]["op"]["place"]["l"]
                defs = b.whole_defs(l)
        seen = {}
        for (dbi, dsi) in defs:
            if dsi == "term":
                continue
            rv = b.blocks[dbi]["stmts"][dsi]["rv"]
            if rv["k"] != "aggregate" or rv["kind"].get("adt") != "core::option::Option":
                continue
            variant = rv["kind"]["variant"]
            ces = lib.controlling_edges(b, dbi)
            cond = None
            for s_, d_ in ces:
                c = tm.operand(b.term(s_)["discr"])
                if c[0] == "call" and c[1].endswith(("PartialEq>::eq", "PartialEq>::ne", "PartialEq::eq", "PartialEq::ne")) and T.mentions_param(c, "init"):
                    other = [x for x in T.walk(c) if (x[0] == "c" and x[1] == NONE) or (x[0] == "agg" and x[1].startswith("adt:llfree::Init::None"))]
                    if other:
                        cond = lib.bool_edge_polarity(b, s_, d_)
                        if cond is not None and c[1].endswith("::ne"):
                            cond = not cond
                    else:
                        cond = "compared with %s" % T.show(c)
                elif c[0] == "discr" and T.canon(T.strip_refs(c[1])) == ("p", "init"):
                    # `match init { Init::None => .., _ => .. }`
                    vals = lib.switch_value_for_edge(b, s_, d_)
                    listed = [v for v, _ in b.term(s_)["targets"]]
                    if vals == [NONE]:
                        cond = True
                    elif NONE not in vals and ("otherwise" not in vals or NONE in listed):
                        cond = False
            seen[variant] = cond
        rep.check(seen.get("None") is True and seen.get("Some") is False, rule, "new|tree_init-none-iff-init-none",
                  "tree_init is None exactly when init == Init::None",
                  "tree_init / init mode pairing is %s (expected None iff init == Init::None)" % seen, tt["span"])
    # (d)
    w = eff.may_write("llfree::local::Locals::new")
    rep.check(not w, rule, "Locals::new|no-write", "reaches no write primitive", "Locals::new may write: %s" % (w[:2],),
              lib.need_body(prog, "llfree::local::Locals::new").span)
    # also: LLFree::new itself has no may-write call other than the three constructors (on the None path)
    for bi, t in b.calls():
        name = callee_name(t["callee"])
        if name in ("llfree::lower::Lower::new", "llfree::trees::Trees::new", "llfree::local::Locals::new"):
            continue
        w = eff.call_may_write(b, t)
        rep.check(not w, rule, "new|other-call|%s" % name, "read-only", "LLFree::new calls %s which may write metadata" % name, t["span"]) if w else None


def r_new_errs(rep, prog):
    rule = "R-NEW-ERRS"
    rep.rule(rule, "LLFree::new fails only if valid() is false or a sub-constructor fails: valid, quiescent metadata always yields an allocator")
    b = lib.need_body(prog, NEW)
    ps = PathSens(b, prog)
    sites = {}
    for name in ("llfree::MetaData::valid", "llfree::lower::Lower::new", "llfree::local::Locals::new"):
        s = lib.find_calls(b, name)
        if len(s) == 1:
            sites[name] = s[0][0]
    n = 0
    for rn in ps.return_nodes():
        d = ps.ret_discr(rn)
        if d == 0:
            continue
        n += 1
        env = ps.term_env_of(rn)
        cause = None
        if env.get(("c", sites.get("llfree::MetaData::valid"))) == 0:
            cause = "valid() == false"
        elif env.get(("c", sites.get("llfree::lower::Lower::new"))) == 1:
            cause = "Lower::new failed"
        elif env.get(("c", sites.get("llfree::local::Locals::new"))) == 1:
            cause = "Locals::new failed"
        rep.check(cause is not None, rule, "new|err-cause", "Err return caused by: %s" % cause,
                  "LLFree::new has a failure exit that is not caused by invalid buffers or a failing sub-constructor: a valid "
                  "quiescent metadata image can be rejected", b.span)
    rep.floor(rule, "Err return states of LLFree::new", n, 2)
    # sub-constructors: Lower::new / Locals::new fail only on the length/alignment guard (first switch region)
    for fn in ("llfree::lower::Lower::new", "llfree::local::Locals::new"):
        sb = lib.need_body(prog, fn)
        stm = T.Terms(sb, prog)
        for bi, si, rv in lib.assignments_to_return(sb):
            if si == "term":
                continue
            t = stm.rvalue(rv)
            if t[0] == "agg" and t[1].startswith("adt:core::result::Result::Err"):
                conds = []
                for s_ in range(sb.nblocks()):
                    if sb.term(s_)["k"] == "switch" and bi in cfg.reachable_from(sb, s_):
                        conds.append(stm.operand(sb.term(s_)["discr"]))
                only_buf = all(T.mentions_call(c, "slice::len") or T.mentions_call(c, "ptr_const::align_offset") or
                               T.mentions_call(c, "usize::is_multiple_of") or c[0] in ("c",) or
                               any(x[0] == "call" and x[1].startswith("log::") or x[1].endswith("PartialOrd::le") for x in T.walk(c) if x[0] == "call")
                               for c in conds)
                rep.check(only_buf, rule, "%s|err-only-buffer-guard" % fn, "fails only on the buffer length/alignment guard",
                          "%s can fail for a reason other than buffer length/alignment" % fn, sb.blocks[bi]["stmts"][si]["span"])


def r_meta_roundtrip(rep, prog):
    rule = "R-META-ROUNDTRIP"
    rep.rule(rule, "metadata() returns each buffer under the field new() reads it from, with the length new() checked")
    fn = "<llfree::llfree::LLFree as llfree::Alloc>::metadata"
    b = lib.need_body(prog, fn)
    rep.saw(fn)
    tm = T.Terms(b, prog)
    want = {"local": "llfree::local::Locals::metadata", "trees": "llfree::trees::Trees::metadata", "lower": "llfree::lower::Lower::metadata"}
    found = False
    for bi, si, s in b.stmts():
        if s["k"] == "assign" and s["rv"]["k"] == "aggregate" and s["rv"]["kind"].get("adt") == "llfree::MetaData":
            found = True
            for fname, op in zip(s["rv"]["kind"]["fields"], s["rv"]["ops"]):
                t = tm.operand(op)
                rep.check(t[0] == "call" and t[1] == want.get(fname), rule, "metadata|field|%s" % fname,
                          "%s <- %s" % (fname, want.get(fname, "?").split("::")[-2]),
                          "MetaData.%s is filled from %s" % (fname, T.show(t)), s["span"])
    rep.check(found, rule, "metadata|aggregate", "builds MetaData", "LLFree::metadata does not build a MetaData value", b.span)
    # new() reads them back from the same fields
    nb = lib.need_body(prog, NEW)
    ntm = T.Terms(nb, prog)
    for callee, field, idx in (("llfree::lower::Lower::new", "lower", 2), ("llfree::local::Locals::new", "local", 0), ("llfree::trees::Trees::new", "trees", 1)):
        s = lib.find_calls(nb, callee)
        if len(s) != 1:
            continue
        a = ntm.operand(s[0][1]["args"][idx])
        f = [x for x in T.walk(a) if x[0] == "f" and x[3] == field and T.strip_refs(x[1])[0] == "p"]
        rep.check(bool(f), rule, "new|reads|%s" % field, "%s gets meta.%s" % (callee.split("::")[-2], field),
                  "%s is constructed over %s, not meta.%s" % (callee, T.show(a), field), s[0][1]["span"])
    # each X::metadata rebuilds its slice with X::metadata_size / the stored buffer length
    for fn, sizefn in (("llfree::lower::Lower::metadata", "llfree::lower::Lower::metadata_size"),
                       ("llfree::trees::Trees::metadata", "llfree::trees::Trees::metadata_size"),
                       ("llfree::local::Locals::metadata", None)):
        mb = lib.need_body(prog, fn)
        rep.saw(fn)
        mtm = T.Terms(mb, prog)
        fr = lib.find_calls(mb, "core::slice::raw::from_raw_parts_mut")
        if len(fr) != 1:
            rep.violation(rule, "%s|view" % fn, "expected one from_raw_parts_mut", mb.span)
            continue
        ln = mtm.operand(fr[0][1]["args"][1])
        if sizefn:
            good = ln[0] == "call" and ln[1] == sizefn
        else:
            good = ln[0] == "call" and ln[1] == "slice::len" and any(x[0] == "f" and x[3] == "buffer" for x in T.walk(ln))
        rep.check(good, rule, "%s|length" % fn, "length = %s" % (sizefn or "buffer.len()"),
                  "%s rebuilds its buffer with length %s" % (fn, T.show(ln)), fr[0][1]["span"])
        if sizefn and good:
            # ... of the frame count the constructor sized and checked the buffer for
            arg = T.canon(ln[2][0])
            TFc = prog.crate("llfree").const("llfree::TREE_FRAMES")
            if fn.endswith("Lower::metadata"):
                # the lower-level size depends on the frame count at huge-frame granularity: only the stored count is right
                ok_arg = arg == ("call", "llfree::lower::Lower::frames", (("p", "self"),)) or arg == ("f", ("p", "self"), "frames")
                want_s = "self.frames()"
            else:
                # the tree-array size depends on ceil(frames / TREE_FRAMES) only: len() * TREE_FRAMES is equivalent
                ok_arg = (arg[0] == "bin" and arg[1] == "Mul" and ("c", TFc) in (arg[2], arg[3]) and any(
                    x[0] == "call" and x[1] in ("llfree::trees::Trees::len", "slice::len") for x in (arg[2], arg[3])))
                want_s = "self.len() * TREE_FRAMES"
            rep.check(ok_arg, rule, "%s|length-arg" % fn, "sized for %s, the count new() checked the buffer against" % want_s,
                      "%s sizes the returned slice for %s frames instead of %s: the slice is longer than the caller's buffer whenever "
                      "the two differ (partial last tree)" % (fn, T.show(ln[2][0])[:80], want_s), fr[0][1]["span"])
        ptr = mtm.operand(fr[0][1]["args"][0])
        fields = {"llfree::lower::Lower::metadata": "bitfields", "llfree::trees::Trees::metadata": "entries", "llfree::local::Locals::metadata": "buffer"}
        rep.check(any(x[0] == "f" and x[3] == fields[fn] for x in T.walk(ptr)), rule, "%s|base" % fn, "starts at self.%s" % fields[fn],
                  "%s does not start at self.%s: %s" % (fn, fields[fn], T.show(ptr)), fr[0][1]["span"])
    # the size functions used by new's guards are the same ones
    lb = lib.need_body(prog, "llfree::lower::Lower::new")
    ltm = T.Terms(lb, prog)
    ms = lib.need_body(prog, "llfree::lower::Lower::metadata_size")
    mstm = T.Terms(ms, prog)
    guard = None
    for s_ in range(lb.nblocks()):
        if lb.term(s_)["k"] == "switch":
            c = ltm.operand(lb.term(s_)["discr"])
            if T.mentions_call(c, "slice::len"):
                guard = c
                break
    ret = [mstm.rvalue(rv) for bi, si, rv in lib.assignments_to_return(ms) if si != "term"]
    good = False
    if guard is not None and ret:
        cmp_ = lib.normalize_cmp(guard)
        if cmp_:
            sides = [T.linear(cmp_[0]), T.linear(cmp_[2])]
            want_ = T.linear(ret[0])
            # both are bitfield_size + table_size of Metadata::new(frames)
            def shape(l):
                return None if l is None else sorted((a[0], a[2] if a[0] == "f" else None) for a in l[0])
            good = any(shape(s) == shape(want_) and s is not None and s[1] == want_[1] for s in sides)
    rep.check(good, rule, "Lower::new|guard-uses-metadata_size", "Lower::new checks primary.len() against bitfield_size + table_size (= metadata_size)",
              "Lower::new's length guard (%s) does not match metadata_size (%s)" % (T.show(guard) if guard else "?", T.show(ret[0]) if ret else "?"), lb.span)


def r_state_in_meta(rep, prog):
    """All mutable state of an allocator lives in the three metadata buffers: the instance structs hold references into the
    buffers and plain values fixed at construction, nothing with interior mutability by value (an atomic cursor, a cell, a lock).
    State kept in the instance cannot be handed over through metadata() / Init::None."""
    rule = "R-STATE-IN-META"
    rep.rule(rule, "LLFree, Lower, Trees, Locals hold only references into the metadata buffers and immutable plain values")
    adts = prog.crate("llfree").adts
    MUT = ("Atomic", "atomic::Atom<", "Cell<", "UnsafeCell", "Mutex", "RwLock", "Once", "RefCell")
    n = 0
    for name in ("llfree::llfree::LLFree", "llfree::lower::Lower", "llfree::trees::Trees", "llfree::local::Locals"):
        a = adts.get(name)
        if a is None:
            rep.violation(rule, "%s|adt" % name, "struct not found", None)
            continue
        for f in a["variants"][0]["fields"]:
            n += 1
            ty = f["ty"]
            by_ref = ty.startswith("&")
            nested = ty.split("<")[0].split("::")[-1] in ("Locals", "Lower", "Trees")
            bad = (not by_ref) and (not nested) and any(m in ty for m in MUT)
            rep.check(not bad, rule, "%s|field|%s" % (name.split("::")[-1], f["name"]),
                      "%s: %s" % (f["name"], "reference into a metadata buffer" if by_ref else ("checked struct" if nested else "plain value")),
                      "%s.%s has type %s: mutable state inside the instance, outside the metadata buffers - an allocator rebuilt with "
                      "Init::None from copies of the buffers does not have it and can answer later calls differently" % (
                          name.split("::")[-1], f["name"], ty))
    rep.floor(rule, "instance fields", n, 6)
    # and nothing mutates the plain fields after construction: no `&mut self` method besides metadata()
    for bname, body in sorted(prog.crate("llfree").bodies.items()):
        if "{closure" in bname or body.arg_count < 1:
            continue
        owner = bname.rsplit("::", 1)[0]
        if owner not in ("llfree::llfree::LLFree", "llfree::lower::Lower", "llfree::trees::Trees", "llfree::local::Locals",
                         "<llfree::llfree::LLFree as llfree::Alloc>"):
            continue
        t0 = body.local_ty(1)
        if t0.startswith("&mut ") and any(t0.startswith("&mut " + x) or t0.startswith("&mut %s" % x) for x in ("llfree::LLFree", "lower::Lower", "trees::Trees", "local::Locals", "Self")):
            meth = bname.rsplit("::", 1)[-1]
            rep.check(meth == "metadata", rule, "%s|mut-self" % bname, "only metadata() takes &mut self",
                      "%s takes &mut self: instance fields can change after construction" % bname, body.span)


def run(rep, programs):
    prog = programs["core"]
    r_nowrite_none(rep, prog)
    r_new_errs(rep, prog)
    r_meta_roundtrip(rep, prog)
    r_state_in_meta(rep, prog)
