"""C08 — invalid arguments are rejected with an error and no side effects.

Rules: R-CHECK-DOM, R-CHECK-GUARDS, R-ZONE-FLOW, R-NEW-VALID (DESIGN.md §4 C08)."""
import cfg
import lib
import terms as T
from facts import callee_name
from pathsens import PathSens
from framework import AnchorMissing

KINDS = ["core"]
LEVEL_TEXT = ("static dominance / value-provenance rules over rustc MIR: every path of the entry points is "
              "covered, the argument-validation clause of C08 is decided, the run-time behaviour is not executed")
EXPLANATION = (
    "R-CHECK-DOM: in <LLFree as Alloc>::get/put every local-crate call and every may-write call is dominated by the "
    "Continue edge of self.check(..)?, check is read-only, its failure edge returns Err. "
    "R-CHECK-GUARDS: check has the four guards (order <= TREE_ORDER on the evaluated constant, frame+2^order <= frames(), "
    "alignment, configured class), each returning Error::Argument. R-ZONE-FLOW: ZoneAlloc::{get,put,stats_at} route the frame "
    "through checked_sub(_, self.offset) whose None edge returns Error::Argument / default. R-NEW-VALID: LLFree::new is "
    "dominated by MetaData::valid (3x3 table length/alignment/overlap), failure returns Error::Initialization; "
    "Lower::new / Locals::new re-check length and alignment; NvmAlloc::create region guard."
)

GET = "<llfree::llfree::LLFree as llfree::Alloc>::get"
PUT = "<llfree::llfree::LLFree as llfree::Alloc>::put"
NEW = "<llfree::llfree::LLFree as llfree::Alloc>::new"
CHECK = "llfree::llfree::LLFree::check"
VALID = "llfree::MetaData::valid"


def err_variant_of_term(t):
    """Error variant name when the term is an Error::X aggregate."""
    if t[0] == "agg" and t[1].startswith("adt:llfree::Error::"):
        return t[1].split("::")[-1].split("|")[0]
    return None


def r_check_dom(rep, prog):
    rule = "R-CHECK-DOM"
    rep.rule(rule, "every local-crate or may-write call in get/put is dominated by the success edge of check; check is read-only")
    cg, eff = lib.analyses(prog)
    chk = lib.need_body(prog, CHECK)
    w = eff.may_write(CHECK)
    rep.check(not w, rule, "%s|read-only" % CHECK, "check reaches no write primitive",
              "check may write: %s" % (w[:3],), chk.span)
    for fn in (GET, PUT):
        b = lib.need_body(prog, fn)
        rep.saw(fn)
        sites = lib.find_calls(b, CHECK)
        if len(sites) != 1:
            rep.violation(rule, "%s|check-call" % fn, "expected exactly one call to check, found %d" % len(sites), b.span)
            continue
        cb, ct = sites[0]
        # arguments of check: the frame parameter (or its default) and the request
        tm = T.Terms(b, prog)
        a_frame = tm.operand(ct["args"][1])
        a_req = tm.operand(ct["args"][2])
        rep.check(T.mentions_param(a_frame, "frame"), rule, "%s|check-arg-frame" % fn,
                  "check receives the frame parameter: %s" % T.show(a_frame),
                  "check does not receive the frame parameter: %s" % T.show(a_frame), ct["span"])
        rep.check(T.mentions_param(a_req, "request"), rule, "%s|check-arg-request" % fn,
                  "check receives the request: %s" % T.show(a_req),
                  "check does not receive the request parameter: %s" % T.show(a_req), ct["span"])
        ps = PathSens(b, prog)
        n = 0
        for bi, t in b.calls():
            if bi == cb:
                continue
            name = callee_name(t["callee"]) or "<indirect>"
            relevant = lib.local_call(t) or bool(eff.call_may_write(b, t))
            if not relevant:
                continue
            n += 1
            states = ps.states_at(bi)
            bad = [env for _, env in states if env.get(("c", cb)) != 0]
            rep.check(not bad, rule, "%s|call|%s" % (fn, name),
                      "dominated by check's success edge (%d path states)" % len(states),
                      "call to %s is reachable without a successful check" % name, t["span"])
        rep.floor(rule, "guarded calls in %s" % fn.split("::")[-1], n, 2)
        # failure edge returns an error
        for rn in ps.return_nodes():
            env = ps.term_env_of(rn)
            if env.get(("c", cb)) == 1:
                rep.check(ps.ret_discr(rn) == 1, rule, "%s|check-fail-returns-err" % fn,
                          "failing check returns Err", "a failing check does not return Err", ct["span"])
            if env.get(("c", cb)) is None:
                rep.violation(rule, "%s|return-without-check" % fn, "a return is reachable without running check", b.span)


def r_check_guards(rep, prog):
    rule = "R-CHECK-GUARDS"
    rep.rule(rule, "check returns Error::Argument on four guards: order interval [0,TREE_ORDER], range end, alignment, configured class")
    b = lib.need_body(prog, CHECK)
    rep.saw(CHECK)
    tm = T.Terms(b, prog)
    tree_order = prog.crate("llfree").const("llfree::TREE_ORDER")
    if tree_order is None:
        raise AnchorMissing("constant llfree::TREE_ORDER")
    found = {}
    n_err = 0
    for bi, si, rv in lib.assignments_to_return(b):
        if si == "term":
            continue
        t = tm.rvalue(rv)
        if not (t[0] == "agg" and t[1].startswith("adt:core::result::Result::Err")):
            continue
        n_err += 1
        ev = err_variant_of_term(t[2][0])
        rep.check(ev == "Argument", rule, "check|err-kind|bb-guard-%d" % n_err,
                  "guard returns Error::Argument", "guard returns %s instead of Error::Argument" % T.show(t[2][0]),
                  b.blocks[bi]["stmts"][si]["span"])
        ce = lib.controlling_edges(b, bi)
        if not ce:
            rep.violation(rule, "check|uncontrolled-error", "an Err return that is not controlled by a guard", b.span)
            continue
        s, d = ce[-1]
        cond = tm.operand(b.term(s)["discr"])
        pol = lib.bool_edge_polarity(b, s, d)  # value of cond on the *error* edge
        kind, ok, detail = classify_guard(cond, pol, tree_order, b, prog)
        span = b.term(s).get("span")
        if kind is None:
            rep.note("check: unrecognised guard %s" % T.show(cond))
            continue
        found.setdefault(kind, []).append((ok, detail, span))
    for kind in ("order", "range", "align", "class"):
        inst = found.get(kind)
        if not inst:
            rep.violation(rule, "check|guard|%s" % kind, "guard on %s is missing from check" % kind, b.span)
            continue
        for ok, detail, span in inst:
            if ok is None:
                rep.note("check guard %s: cannot decide exact relation: %s" % (kind, detail))
                rep.ok(rule, "check|guard|%s" % kind, "present; relation not decided: " + detail, span)
            else:
                rep.check(ok, rule, "check|guard|%s" % kind, detail, detail, span)
    # all return paths: Ok only when every guard passed
    ok_blocks = [bi for bi, si, rv in lib.assignments_to_return(b) if si != "term" and
                 tm.rvalue(rv)[0] == "agg" and tm.rvalue(rv)[1].startswith("adt:core::result::Result::Ok")]
    rep.check(len(ok_blocks) == 1, rule, "check|single-ok", "one Ok return", "%d Ok returns" % len(ok_blocks), b.span)
    if ok_blocks:
        ce = lib.controlling_edges(b, ok_blocks[0])
        rep.check(len(ce) >= 4, rule, "check|ok-needs-all-guards",
                  "Ok is control dependent on %d guard edges" % len(ce),
                  "Ok return is control dependent on only %d guard edges (<4)" % len(ce), b.span)


def classify_guard(cond, err_polarity, tree_order, b, prog):
    """Returns (kind, ok|None, detail). err_polarity: value of cond on the edge to the error."""
    mentions_frame = T.mentions_param(cond, "frame")
    mentions_order = T.mentions_field(cond, "order") or T.mentions_call(cond, "llfree::Request::frames")
    mentions_class = T.mentions_field(cond, "class") and T.mentions_call(cond, "llfree::local::Locals::class_locals")
    cmp_ = lib.normalize_cmp(cond) if cond[0] == "bin" else None
    if mentions_class:
        # class_locals(request.class).is_some(), error when false
        is_some = T.mentions_call(cond, "core::option::Option::is_some")
        is_none = T.mentions_call(cond, "core::option::Option::is_none")
        if is_some and not is_none:
            return ("class", err_polarity is False, "error iff class_locals(request.class) is None")
        if is_none and not is_some:
            return ("class", err_polarity is True, "error iff class_locals(request.class) is None")
        return ("class", None, T.show(cond))
    if mentions_frame and T.mentions_call(cond, "llfree::lower::Lower::frames"):
        if not mentions_order:
            return ("range", False, "range guard does not depend on the order: %s" % T.show(cond))
        if cmp_ is None:
            return ("range", None, T.show(cond))
        c = cmp_ if err_polarity is False else lib.negate_rel(cmp_)  # c = accepted condition
        lhs, rel, rhs = c
        diff = T._lin_add(T.linear(rhs), T.linear(lhs), -1)   # rhs - lhs >= (0 | 1)
        if diff is None or rel not in ("le", "lt"):
            return ("range", None, T.show(cond))
        atoms, const = diff
        if rel == "lt":
            const -= 1
        # expected: frames() - frame.0 - 2^order >= 0
        pos = [a for a, v in atoms.items() if v == 1]
        neg = [a for a, v in atoms.items() if v == -1]
        shape_ok = (len(atoms) == 3 and len(pos) == 1 and len(neg) == 2 and pos[0][0] == "call"
                    and pos[0][1] == "llfree::lower::Lower::frames"
                    and any(a == ("pow2", ("f", ("p", "request"), "order")) for a in neg) and any(a[0] == "f" and a[1] == ("p", "frame") for a in neg))
        if not shape_ok:
            # an atom that depends on the order but is not 2^order: the block length is wrong
            odd = [a for a in atoms if a[0] != "pow2" and any(isinstance(x, tuple) and x and x[0] == "f" and x[-1] == "order"
                                                              for x in T.walk(("x", a)))]
            if odd:
                return ("range", False, "the block length in the range guard is %s, not 2^order" % (odd[:1],))
            return ("range", None, "unrecognised linear shape " + T.show(cond))
        return ("range", const == 0, "accepted iff frame + 2^order <= frames()%s" % (
            "" if const == 0 else " shifted by %d (off by one)" % const))
    if mentions_frame and mentions_order:
        ok_shape = (T.mentions_call(cond, "usize::is_multiple_of") or T.mentions_call(cond, "llfree::FrameId::is_aligned")
                    or any(x[0] == "bin" and x[1] in ("Rem", "BitAnd") for x in T.walk(cond)))
        if not ok_shape:
            return ("align", None, T.show(cond))
        if T.mentions_call(cond, "usize::is_multiple_of") and cond[0] == "call":
            a0, a1 = cond[2]
            la = T.linear(a1)
            ORDER = ("pow2", ("f", ("p", "request"), "order"))
            good = T.mentions_param(a0, "frame") and la is not None and la[1] == 0 and la[0] == {ORDER: 1}
            return ("align", bool(good) and err_polarity is False,
                    "error iff frame is not a multiple of 2^order" if good else
                    "the alignment unit is %s, not 2^request.order: blocks of some orders are accepted at misaligned frames" % T.show(a1)[:60])
        return ("align", None, T.show(cond))
    if mentions_order and not mentions_frame:
        if cmp_ is None:
            return ("order", None, T.show(cond))
        c = cmp_ if err_polarity is False else lib.negate_rel(cmp_)
        lhs, rel, rhs = c
        lv, rv = T.const_val(T.strip_casts(lhs)), T.const_val(T.strip_casts(rhs))
        if rv is not None and T.mentions_field(lhs, "order") and rel in ("le", "lt"):
            hi = rv if rel == "le" else rv - 1
            return ("order", hi == tree_order, "accepted orders [0, %d], TREE_ORDER = %d" % (hi, tree_order))
        return ("order", None, T.show(cond))
    return (None, None, T.show(cond))


def r_zone_flow(rep, prog):
    rule = "R-ZONE-FLOW"
    rep.rule(rule, "ZoneAlloc::{get,put,stats_at}: the inner frame argument flows only through checked_sub(frame, self.offset); "
                   "its None edge returns Error::Argument (stats_at: default) without calling the inner allocator")
    for m, inner in (("put", "llfree::Alloc::put"), ("stats_at", "llfree::Alloc::stats_at"), ("get", "llfree::Alloc::get")):
        fn = "<llfree::wrapper::ZoneAlloc as llfree::Alloc>::%s" % m
        b = lib.need_body(prog, fn)
        rep.saw(fn)
        tm = T.Terms(b, prog)
        sites = lib.find_calls(b, inner)
        if len(sites) != 1:
            rep.violation(rule, "%s|inner-call" % fn, "expected one inner call to %s, found %d" % (inner, len(sites)), b.span)
            continue
        ib, it = sites[0]
        farg = tm.operand(it["args"][1])
        subs = [x for x in T.walk(farg) if x[0] == "call" and x[1] == "usize::checked_sub"]
        direct = m == "get" and any(callee_name(t["callee"]) == "usize::checked_sub" for _, t in b.calls())
        if direct:
            _zone_get_direct(rep, rule, fn, b, tm, prog, ib, it, farg)
            other = tm.operand(it["args"][2])
            rep.check(other[0] == "p", rule, "%s|forwards-request" % fn, "second argument forwarded unchanged: " + T.show(other),
                      "request/order argument is not forwarded unchanged: " + T.show(other), it["span"])
            continue
        if m == "get":
            # frame.map(|f| f.0.checked_sub(self.offset).map(FrameId).ok_or(Argument)).transpose()?
            maps = [x for x in T.walk(farg) if x[0] == "call" and x[1] == "core::option::Option::map"]
            okc = False
            detail = "no Option::map over the frame parameter"
            for mp in maps:
                if not T.mentions_param(mp[2][0], "frame"):
                    continue
                clos = [x for x in T.walk(mp[2][1]) if x[0] == "agg" and x[1].startswith("closure:")]
                if not clos:
                    continue
                cname = clos[0][1][len("closure:"):]
                cb = prog.body(cname)
                if cb is None:
                    continue
                rep.saw(cname)
                ctm = T.Terms(cb, prog)
                rets = [ctm.rvalue(rv) if si != "term" else ctm.call_term(bi) for bi, si, rv in lib.assignments_to_return(cb)]
                good = []
                for r in rets:
                    cs = [x for x in T.walk(r) if x[0] == "call" and x[1] == "usize::checked_sub"]
                    good.append(bool(cs) and all(T.mentions_upvar(c[2][1], "self") and T.mentions_field(c[2][1], "offset")
                                                 and any(y[0] == "p" for y in T.walk(c[2][0])) for c in cs)
                                and any(err_variant_of_term(x) == "Argument" for x in T.walk(r)))
                okc = bool(rets) and all(good)
                detail = "closure result: " + "; ".join(T.show(r) for r in rets)
            rep.check(okc, rule, "%s|frame-through-checked_sub" % fn, detail, "frame does not pass checked_sub(self.offset)/Error::Argument: " + detail, it["span"])
            # no other flow of `frame` into the inner argument
            outside = _mentions_param_outside(farg, "frame", lambda x: x[0] == "call" and x[1] == "core::option::Option::map")
            rep.check(not outside, rule, "%s|no-bypass" % fn, "frame reaches the inner call only through the translating map",
                      "frame parameter reaches the inner call bypassing the offset translation: " + T.show(farg), it["span"])
            rep.check(T.mentions_call(farg, "core::option::Option::transpose"), rule, "%s|transpose" % fn,
                      "error of the translation is propagated (transpose + ?)", "translation error not propagated", it["span"])
        else:
            good = bool(subs) and all(T.mentions_param(c[2][0], "frame") and T.mentions_field(c[2][1], "offset")
                                      and T.mentions_param(c[2][1], "self") for c in subs)
            rep.check(good, rule, "%s|frame-through-checked_sub" % fn, "inner frame = " + T.show(farg),
                      "inner frame is not checked_sub(frame, self.offset): " + T.show(farg), it["span"])
            outside = _mentions_param_outside(farg, "frame", lambda x: x[0] == "call" and x[1] == "usize::checked_sub")
            rep.check(not outside, rule, "%s|no-bypass" % fn, "frame reaches the inner call only through checked_sub",
                      "frame parameter bypasses checked_sub: " + T.show(farg), it["span"])
        # path: inner call only on the Some edge; None edge returns error/default
        track = frozenset(["usize::checked_sub", "core::option::Option::transpose"])
        ps = PathSens(b, prog, track=lambda n, tr=track: n in tr)
        sub_sites = [bi for bi, t in b.calls() if callee_name(t["callee"]) in track]
        if m != "get" and not sub_sites:
            rep.violation(rule, "%s|checked_sub-site" % fn, "no checked_sub call", b.span)
            continue
        states = ps.states_at(ib)
        want = 1 if m != "get" else 0   # Option Some / transpose -> Ok
        bad = [env for _, env in states if any(env.get(("c", sb)) != want for sb in sub_sites)]
        rep.check(bool(states) and not bad, rule, "%s|inner-only-on-success" % fn,
                  "inner call only on the success edge of the translation (%d states)" % len(states),
                  "inner allocator is called although the offset translation failed", it["span"])
        for rn in ps.return_nodes():
            env = ps.term_env_of(rn)
            failed = any(env.get(("c", sb)) == (1 - want) for sb in sub_sites)
            if failed and m != "stats_at":
                rep.check(ps.ret_discr(rn) == 1, rule, "%s|fail-returns-err" % fn, "translation failure returns Err",
                          "translation failure does not return Err", b.span)
        if m == "put":
            errs = [x for x in T.walk(tm.operand(it["args"][1])) if err_variant_of_term(x)]
            rep.check(any(err_variant_of_term(x) == "Argument" for x in errs) or _fail_returns_argument(ps, prog, sub_sites, 1 - want), rule, "%s|error-kind" % fn,
                      "None is mapped to Error::Argument", "None is not mapped to Error::Argument", it["span"])
        # the request / order is forwarded unchanged
        other = tm.operand(it["args"][2])
        rep.check(other[0] == "p", rule, "%s|forwards-request" % fn, "second argument forwarded unchanged: " + T.show(other),
                  "request/order argument is not forwarded unchanged: " + T.show(other), it["span"])


def _zone_get_direct(rep, rule, fn, b, tm, prog, ib, it, farg):
    """ZoneAlloc::get with the offset translation written in the body itself (match / if let / let-else):
    case split over the reaching definitions of the inner argument plus a path-sensitive agreement check."""
    alts = T.alternatives(tm, farg)
    some_alts = []
    okc = True
    has_arg = True
    detail = []
    for a in alts:
        if a[0] == "agg" and a[1].startswith("adt:core::option::Option::None"):
            detail.append("None")
            continue
        subs = [x for x in T.walk(a) if x[0] == "call" and x[1] == "usize::checked_sub"]
        good = bool(subs) and all(T.mentions_param(c[2][0], "frame") and T.mentions_field(c[2][1], "offset")
                                  and T.mentions_param(c[2][1], "self") for c in subs)
        has_arg = has_arg and any(err_variant_of_term(x) == "Argument" for x in T.walk(a))
        good = good and not _mentions_param_outside(a, "frame", lambda x: x[0] == "call" and x[1] == "usize::checked_sub")
        okc = okc and good
        some_alts.append(a)
        detail.append(T.show(a)[:140])
    rep.check(okc and bool(some_alts), rule, "%s|frame-through-checked_sub" % fn, "inner frame is one of: " + " | ".join(detail),
              "a value reaching the inner frame argument is not None and not checked_sub(frame, self.offset) with Error::Argument "
              "on underflow: " + " | ".join(detail), it["span"])
    # path agreement: Some stays Some (translated), None stays None, underflow never reaches the inner call
    ps = PathSens(b, prog, track=lambda n: n == "usize::checked_sub")
    sub_sites = [bi for bi, t in b.calls() if callee_name(t["callee"]) == "usize::checked_sub"]
    fparam = [l for l in range(1, b.arg_count + 1) if b.local_name(l) == "frame"]
    root = farg[1] if farg[0] == "l" else None
    states = ps.states_at(ib)
    bad = []
    for _, env in states:
        dp = env.get(("d", fparam[0], ())) if fparam else None
        da = env.get(("d", root, ())) if root is not None else None
        if dp is None or da is None or dp != da:
            bad.append("requested=%s inner=%s" % ({0: "None", 1: "Some"}.get(dp, "?"), {0: "None", 1: "Some"}.get(da, "?")))
        elif dp == 1 and not (any(env.get(("c", sb)) == 1 for sb in sub_sites) and all(env.get(("c", sb)) in (1, None) for sb in sub_sites)):
            bad.append("Some(frame) reaches the inner call without a successful checked_sub")
    rep.check(bool(states) and not bad, rule, "%s|inner-only-on-success" % fn,
              "Some(frame) reaches the inner call only translated, None only as None (%d path states)" % len(states),
              "the inner allocator is called with a frame argument that does not correspond to the request: " + "; ".join(sorted(set(bad))),
              it["span"])
    for rn in ps.return_nodes():
        env = ps.term_env_of(rn)
        if any(env.get(("c", sb)) == 0 for sb in sub_sites):
            rep.check(ps.ret_discr(rn) == 1, rule, "%s|fail-returns-err" % fn, "translation failure returns Err",
                      "a frame below the zone offset does not make get return Err", b.span)
    rep.check((has_arg and bool(some_alts)) or _fail_returns_argument(ps, prog, sub_sites, 0), rule, "%s|error-kind" % fn,
              "the underflow is reported as Error::Argument", "a frame below the zone offset is not reported as Error::Argument", it["span"])


def _fail_returns_argument(ps, prog, sub_sites, fail_status):
    """Every return reached with a failed checked_sub carries Err(Error::Argument) built in this function."""
    arg = [v["discr"] for v in prog.crate("llfree").adts["llfree::Error"]["variants"] if v["name"] == "Argument"][0]
    seen = False
    for rn in ps.return_nodes():
        env = ps.term_env_of(rn)
        if any(env.get(("c", sb)) == fail_status for sb in sub_sites):
            seen = True
            if ps.ret_discr(rn) != 1 or env.get(("d", 0, ("as1", ".0"))) != arg:
                return False
    return seen


def _mentions_param_outside(t, name, is_barrier):
    """True if parameter `name` occurs in t outside sub-terms accepted by is_barrier."""
    stack = [t]
    while stack:
        x = stack.pop()
        if not isinstance(x, tuple) or not x or not isinstance(x[0], str):
            if isinstance(x, tuple):
                stack.extend(x)
            continue
        if is_barrier(x):
            continue
        if x[0] == "p" and x[2] == name:
            return True
        for y in x[1:]:
            if isinstance(y, tuple):
                stack.append(y)
    return False


def r_new_valid(rep, prog):
    rule = "R-NEW-VALID"
    rep.rule(rule, "LLFree::new: meta.valid(..) success dominates Lower::new/Locals::new/Trees::new, failure returns "
                   "Error::Initialization; valid covers {local,trees,lower} x {length, alignment, pairwise non-overlap}")
    b = lib.need_body(prog, NEW)
    rep.saw(NEW, VALID)
    sites = lib.find_calls(b, VALID)
    if len(sites) != 1:
        rep.violation(rule, "new|valid-call", "expected one call to MetaData::valid, found %d" % len(sites), b.span)
        return
    vb, vt = sites[0]
    tm = T.Terms(b, prog)
    # the size passed to valid is Self::metadata_size(classing, frames)
    sz = tm.operand(vt["args"][1])
    rep.check(T.mentions_call(sz, "<llfree::llfree::LLFree as llfree::Alloc>::metadata_size") and
              T.mentions_param(sz, "frames") and T.mentions_param(sz, "classing"), rule, "new|valid-size",
              "valid checks against metadata_size(classing, frames)", "valid is not given metadata_size(classing, frames): " + T.show(sz),
              vt["span"])
    ps = PathSens(b, prog)
    n = 0
    for bi, t in b.calls():
        name = callee_name(t["callee"])
        if name in ("llfree::lower::Lower::new", "llfree::local::Locals::new", "llfree::trees::Trees::new"):
            n += 1
            states = ps.states_at(bi)
            bad = [e for _, e in states if e.get(("c", vb)) != 1]
            rep.check(bool(states) and not bad, rule, "new|dominated|%s" % name.split("::")[-2],
                      "%s only after valid() returned true" % name, "%s reachable without valid() == true" % name, t["span"])
    rep.floor(rule, "constructors guarded by valid", n, 3)
    for rn in ps.return_nodes():
        env = ps.term_env_of(rn)
        if env.get(("c", vb)) == 0:
            ok = ps.ret_discr(rn) == 1 and env.get(("d", 0, ("as1", ".0"))) == 4
            rep.check(ok, rule, "new|invalid-returns-initialization", "invalid metadata returns Err(Error::Initialization)",
                      "invalid metadata does not return Err(Error::Initialization)", vt["span"])
    # --- the 3x3 table inside valid
    v = lib.need_body(prog, VALID)
    vtm = T.Terms(v, prog)
    # atoms: every comparison / overlap call evaluated in valid(), with the local that holds its result
    atoms = []
    atom_local = {}
    for bi, si, st in v.stmts():
        if st["k"] == "assign" and not st["place"].get("p") and st["rv"]["k"] == "binop" and st["rv"]["op"] in ("Eq", "Ne", "Lt", "Le", "Gt", "Ge"):
            t = vtm.rvalue(st["rv"])
            atoms.append((bi, t, "cmp"))
            atom_local[len(atoms) - 1] = st["place"]["l"]
    for bi, t_ in v.calls():
        cn = callee_name(t_["callee"]) or ""
        if cn == "llfree::MetaData::valid::overlap" and not t_["dest"].get("p"):
            atoms.append((bi, vtm.call_term(bi), "call"))
            atom_local[len(atoms) - 1] = t_["dest"]["l"]
        elif cn.startswith("llfree::") and not t_["dest"].get("p") and v.local_ty(t_["dest"]["l"]) == "bool":
            # a local helper that evaluates one of the conditions (`fn aligned(buf) -> bool`)
            atoms.append((bi, lib.inline_pure(prog, vtm.call_term(bi)), "helper"))
            atom_local[len(atoms) - 1] = t_["dest"]["l"]
    true_blocks = []
    table = {}

    def fld(t):
        """Which MetaData field (0 local,1 trees,2 lower) a term reads from self."""
        for x in T.walk(t):
            if x[0] == "f" and T.strip_refs(x[1]) == ("p", 1, "self"):
                return x[2]
        return None

    for where, t, how in atoms:
        neg = False
        core_t = lib.inline_pure(prog, t, exclude=("llfree::MetaData::valid::overlap",))
        if core_t[0] == "un" and core_t[1] == "Not":
            neg = True
            core_t = core_t[2]
        c = lib.normalize_cmp(core_t) if core_t[0] == "bin" else None
        if c and any(x[0] == "call" and x[1] == "slice::len" for x in T.walk(core_t)):
            lhs, rel, rhs = c
            # m.X <= len(self.X)
            if rel == "le" and T.mentions_call(rhs, "slice::len") and T.mentions_param(lhs, "m"):
                f_len, f_m = fld(rhs), [x[2] for x in T.walk(lhs) if x[0] == "f"][:1]
                table[("len", f_len)] = (f_m == [f_len], where, how, "len(self.%s) >= m.%s" % (f_len, f_m))
            else:
                table[("len", fld(core_t))] = (False, where, how, "unexpected length relation " + T.show(core_t))
        elif c and T.mentions_call(core_t, "ptr_const::align_offset"):
            lhs, rel, rhs = c
            table[("align", fld(core_t))] = (rel == "eq" and (T.const_val(rhs) == 0 or T.const_val(lhs) == 0), where, how,
                                             "align_offset(self.%s.as_ptr(), align) == 0" % fld(core_t))
        elif core_t[0] == "call" and core_t[1] == "llfree::MetaData::valid::overlap":
            pair = frozenset(fld(a) for a in core_t[2])
            table[("overlap", pair)] = (True, where, how, "overlap(%s)" % sorted(pair), neg)
        else:
            rep.note("valid: unclassified condition " + T.show(t))
    for kind in ("len", "align"):
        for f, fname in ((0, "local"), (1, "trees"), (2, "lower")):
            e = table.get((kind, f))
            if e is None:
                rep.violation(rule, "valid|%s|%s" % (kind, fname), "valid() has no %s check for the %s buffer" % (kind, fname), v.span)
            else:
                rep.check(e[0], rule, "valid|%s|%s" % (kind, fname), e[3], "wrong %s check for %s: %s" % (kind, fname, e[3]), v.span)
    for pair, pname in ((frozenset([0, 1]), "local-trees"), (frozenset([1, 2]), "trees-lower"), (frozenset([2, 0]), "lower-local")):
        e = table.get(("overlap", pair))
        rep.check(e is not None, rule, "valid|overlap|%s" % pname, "overlap(%s) is checked" % pname,
                  "valid() does not check that %s do not overlap" % pname, v.span)
    # valid() can only return true when every atom passed: path-sensitive, so that `let large_enough = a && b; large_enough && ..`
    # and the plain && chain are the same to the rule
    import cfg as _cfg
    ps = PathSens(v, prog, track=lambda n: bool(n) and n.startswith("llfree::"), keep_dead=not _cfg.natural_loops(v))
    bad = {}
    n_true = 0
    for rn in ps.return_nodes():
        env = ps.term_env_of(rn)
        if env.get(("v", 0)) == 0:
            continue
        n_true += 1
        for i, (where, t, how) in enumerate(atoms):
            l_ = atom_local[i]
            core_t = lib.inline_pure(prog, t, exclude=("llfree::MetaData::valid::overlap",))
            want = 0 if how == "call" else 1
            got = env.get(("v", l_))
            if how in ("call", "helper") and got is None:
                got = env.get(("c", where))
            # the last conjunct is the returned value itself: `_0 = atom` / `_0 = !overlap(..)`
            rel0 = env.get(("rel", 0))
            if got is None and rel0 is not None and rel0[1] == l_ and rel0[0] == ("not" if want == 0 else "id"):
                continue
            if got != want:
                bad[i] = T.show(t)[:80]
    rep.check(n_true >= 1, rule, "valid|single-true", "%d result states that can be true" % n_true, "valid() never returns true", v.span)
    for i, (where, t, how) in enumerate(atoms):
        rep.check(i not in bad, rule, "valid|conj|" + T.show(t)[:60], "a true result requires this condition",
                  "valid() can return true although `%s` failed (or was not evaluated on that path)" % T.show(t)[:100], v.span)

def r_overlap_symmetric(rep, prog, rule="R-NEW-VALID"):
    """The interval test behind every `overlap(x, y)` conjunct of valid(): two non-empty ranges intersect iff
    a.start < b.end and b.start < a.end - both comparisons are needed (one alone misses one nesting direction)."""
    b = prog.body("llfree::MetaData::valid::overlap")
    if b is None:
        rep.check(True, rule, "overlap|test", "undecided: no nested overlap helper (another implementation)")
        return
    rep.saw(b.name)
    tm = T.Terms(b, prog)
    cmps = []
    for s_ in range(b.nblocks()):
        t = b.term(s_)
        if t["k"] == "switch":
            cmps.append((T.canon(tm.operand(t["discr"])), s_))
    rets = []
    for bi, si, rv in lib.assignments_to_return(b):
        rets.append(T.canon(tm.call_term(bi) if si == "term" else tm.rvalue(rv)))
    terms = [c for c, _ in cmps] + rets

    def is_lt(t, x, y):
        # x < y (or y > x) between range bounds
        if t[0] != "bin":
            return False
        a_, b_ = t[2], t[3]
        if t[1] == "Lt":
            return a_ == x and b_ == y
        if t[1] == "Gt":
            return a_ == y and b_ == x
        return False
    A, B = ("p", "a"), ("p", "b")
    fwd = any(is_lt(t, ("f", A, "start"), ("f", B, "end")) for t in terms)
    bwd = any(is_lt(t, ("f", B, "start"), ("f", A, "end")) for t in terms)
    maxmin = any(t[0] == "bin" and t[1] == "Lt" and t[2][0] == "call" and t[2][1].endswith("::max") and t[3][0] == "call" and t[3][1].endswith("::min")
                 for t in terms)
    # every true result needs both comparisons: the single non-false return is the last conjunct, the others are switches on the way
    rep.check((fwd and bwd) or maxmin, rule, "overlap|symmetric", "a.start < b.end && b.start < a.end",
              "overlap(a, b) is not the symmetric interval test (found a.start<b.end: %s, b.start<a.end: %s): buffers that overlap in one "
              "nesting direction are accepted" % (fwd, bwd), b.span)


def r_ctor_guards(rep, prog):
    rule = "R-CTOR-GUARDS"
    rep.rule(rule, "Lower::new, Locals::new: Err(Error::Initialization) is returned before any view of the buffer is created "
                   "when the buffer is too short or misaligned; NvmAlloc::create: region-size/alignment guard")
    for fn, sizefn in (("llfree::lower::Lower::new", None), ("llfree::local::Locals::new", "llfree::local::Locals::metadata_size"),
                       ("llfree::wrapper::NvmAlloc::create", None)):
        b = lib.need_body(prog, fn)
        rep.saw(fn)
        tm = T.Terms(b, prog)
        errs = []
        for bi, si, rv in lib.assignments_to_return(b):
            if si == "term":
                continue
            t = tm.rvalue(rv)
            if t[0] == "agg" and t[1].startswith("adt:core::result::Result::Err") and err_variant_of_term(t[2][0]) == "Initialization":
                errs.append(bi)
        rep.check(len(errs) >= 1, rule, "%s|init-error" % fn, "%d Err(Initialization) returns" % len(errs),
                  "no Err(Error::Initialization) return", b.span)
        if not errs:
            continue
        # the first guard: both a length and an alignment condition control it
        conds = []
        for e in errs:
            for s, d in lib.controlling_edges(b, e)[-2:]:
                conds.append(tm.operand(b.term(s)["discr"]))
        # any switch leading to this error block (|| chains are not single controlling edges)
        for s in range(b.nblocks()):
            if b.term(s)["k"] == "switch" and any(e in cfg.reachable_from(b, s) for e in errs):
                conds.append(tm.operand(b.term(s)["discr"]))
        has_len = any(T.mentions_call(c, "slice::len") or T.mentions_call(c, "core::mem::size_of_val") for c in conds)
        has_align = any(T.mentions_call(c, "ptr_const::align_offset") or T.mentions_call(c, "usize::is_multiple_of") for c in conds)
        rep.check(has_len, rule, "%s|length-guard" % fn, "length guard present", "no guard on the buffer length", b.span)
        rep.check(has_align, rule, "%s|align-guard" % fn, "alignment guard present", "no guard on the buffer alignment", b.span)
        # every guard decides: the success continuation is reachable from one outcome of each length/alignment test only
        # (`short || misaligned` -> error; with `&&` a short but aligned buffer would pass)
        okret = [bi for bi, si, rv in lib.assignments_to_return(b) if si != "term" and tm.rvalue(rv)[0] == "agg"
                 and tm.rvalue(rv)[1].startswith("adt:core::result::Result::Ok")]
        for s_ in range(b.nblocks()):
            if b.term(s_)["k"] != "switch" or not okret:
                continue
            c = tm.operand(b.term(s_)["discr"])
            is_guard = (T.mentions_call(c, "slice::len") or T.mentions_call(c, "core::mem::size_of_val")
                        or T.mentions_call(c, "ptr_const::align_offset") or T.mentions_call(c, "usize::is_multiple_of"))
            if not is_guard or not any(e in cfg.reachable_from(b, s_) for e in errs):
                continue
            passing = [d_ for d_ in b.succ(s_) if any(o in cfg.reachable_from(b, d_) for o in okret)]
            rep.check(len(passing) == 1, rule, "%s|guard-decides|%s" % (fn, "len" if "len" in T.show(c) or "size_of_val" in T.show(c) else "align"),
                      "success is reachable from one outcome of the test only",
                      "%s succeeds on both outcomes of `%s` (conditions joined with && instead of ||): a buffer that fails this test "
                      "alone is accepted" % (fn.split("::")[-2] + "::" + fn.split("::")[-1], T.show(c)[:80]), b.term(s_).get("span"))
        # no unsafe view before the guard: from_raw_parts* calls are not reachable on the error paths
        ps = PathSens(b, prog)
        views = [bi for bi, t in b.calls() if (callee_name(t["callee"]) or "").startswith("core::slice::raw::from_raw_parts")]
        for vb_ in views:
            can_fail_after = any(e in cfg.reachable_from(b, vb_) for e in errs if fn != "llfree::wrapper::NvmAlloc::create")
            rep.check(not can_fail_after, rule, "%s|view-after-guard|bb" % fn, "raw view created only after the guards passed",
                      "a raw view of the buffer is created before the length/alignment guard", b.term(vb_)["span"])


def r_err_kinds(rep, prog):
    """Error discipline of the allocation call tree: Error::Argument originates only in LLFree::check (and the zone translation);
    every other failure below the API is Error::Memory, which is what the callers' fall-through arms (`Err(Error::Memory) => {}`)
    continue on. A helper that reports exhaustion as another error ends the search early and mislabels it as a caller mistake."""
    rule = "R-ERR-KINDS"
    rep.rule(rule, "LLFree::check fails with Argument only; get_at / get_local / steal_* / demote_local / reserve_or_steal and the "
                   "lower-level get / put fail with Memory only")
    dom = lib.error_domains(prog)
    E = {v["name"]: v["discr"] for v in prog.crate("llfree").adts["llfree::Error"]["variants"]}
    want = {"llfree::llfree::LLFree::check": {E["Argument"]}}
    for fn in ("llfree::llfree::LLFree::get_at", "llfree::llfree::LLFree::get_local", "llfree::llfree::LLFree::reserve_or_steal",
               "llfree::llfree::LLFree::steal_global", "llfree::llfree::LLFree::steal_local", "llfree::llfree::LLFree::demote_local",
               "llfree::lower::Lower::get", "llfree::lower::Lower::get_at", "llfree::lower::Lower::put", "llfree::lower::Lower::put_small",
               "llfree::lower::Lower::partial_put_huge", "llfree::trees::Trees::change_at"):
        want[fn] = {E["Memory"]}
    names = {v: k for k, v in E.items()}
    n = 0
    for fn, w in sorted(want.items()):
        b = prog.body(fn)
        if b is None:
            continue
        n += 1
        got = dom.get(fn)
        rep.check(got is not None and set(got) <= w, rule, "%s|errors" % fn, "fails only with %s" % "/".join(sorted(names[x] for x in w)),
                  "%s can fail with %s (expected only %s)" % (fn, sorted(names.get(x, x) for x in (got or [])), sorted(names[x] for x in w)), b.span)
    rep.floor(rule, "functions with a fixed error kind", n, 8)


def run(rep, programs):
    prog = programs["core"]
    r_check_dom(rep, prog)
    r_check_guards(rep, prog)
    r_zone_flow(rep, prog)
    r_new_valid(rep, prog)
    r_overlap_symmetric(rep, prog)
    r_ctor_guards(rep, prog)
    r_err_kinds(rep, prog)
