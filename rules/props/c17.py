"""C17 — zone and persistent wrappers translate frames and protect their metadata.
R-ZONE-FLOW (shared with C08) + outward translation, R-NVM-LAYOUT, R-NVM-HEADER. DESIGN.md §4 C17."""
import lib
import terms as T
from facts import callee_name
from pathsens import PathSens
from props import c08

KINDS = ["core"]
LEVEL_TEXT = ("value-provenance and dominance rules over rustc MIR of the wrappers: decides that frames cross the zone boundary only through "
              "checked_sub / + offset, that the managed frames, the lower metadata and the header are the three disjoint parts produced by "
              "split_last_mut / split_at_mut (Rust's split API guarantees disjointness), that the split point is len - ceil(lower/FRAME_SIZE) "
              "behind the region-size guard, and that recovery is entered only behind both header comparisons; the recovered state is not compared")
TECHNIQUE = "symbolic terms of the split/cast chain (value provenance), edge dominance of the header checks, sibling coverage report"
EXPLANATION = (
    "R-ZONE-FLOW: see C08; plus the frame returned by ZoneAlloc::get is the inner result + self.offset and the class is forwarded. "
    "R-NVM-LAYOUT: in NvmAlloc::create the frame count and base handed to ZoneAlloc::create are len()/as_ptr() of the FRONT part of "
    "split_at_mut applied to the FRONT part of split_last_mut(zone); the lower buffer is the BACK part of that split_at_mut with length "
    "m.lower; the header is the element split off by split_last_mut; the split point is len - div_ceil(m.lower, Frame::SIZE) and the "
    "function is dominated by the guard size_of_val(zone) >= m.lower + Frame::SIZE. R-NVM-HEADER: Init::Recover is selected only if the "
    "loaded magic equals Meta::MAGIC and the loaded frame count equals the zone length; otherwise Err(Initialization); the create path "
    "stores both with the same length term."
)

CREATE = "llfree::wrapper::NvmAlloc::create"


def r_zone_outward(rep, prog):
    rule = "R-ZONE-FLOW"
    fn = "<llfree::wrapper::ZoneAlloc as llfree::Alloc>::get"
    b = lib.need_body(prog, fn)
    tm = T.Terms(b, prog)
    good = False
    detail = ""
    for bi, si, rv in lib.assignments_to_return(b):
        if si == "term":
            continue
        t = tm.rvalue(rv)
        if t[0] == "agg" and t[1].startswith("adt:core::result::Result::Ok"):
            tup = t[2][0]
            detail = T.show(tup)
            if tup[0] == "agg" and len(tup[2]) == 2:
                fr, cl = tup[2]
                if fr[0] == "agg" and fr[2]:
                    l = T.linear(fr[2][0])
                    inner = [a for a in (l[0] if l else {}) if any(isinstance(x, tuple) and x and x[0] == "call" and x[1] == "llfree::Alloc::get" for x in T.walk(("x", a)))]
                    off = [a for a in (l[0] if l else {}) if a[0] == "f" and a[2] == "offset"]
                    good = l is not None and l[1] == 0 and len(l[0]) == 2 and len(inner) == 1 and len(off) == 1 and all(v == 1 for v in l[0].values())
                    good = good and any(x[0] == "call" and x[1] == "llfree::Alloc::get" for x in T.walk(cl))
    rep.check(good, rule, "%s|outward" % fn, "returns (inner frame + self.offset, inner class)",
              "ZoneAlloc::get returns %s" % detail, b.span)
    # siblings: which Alloc methods LLFree overrides that the wrappers leave at their default (reported, not judged)
    cg, _ = lib.analyses(prog)
    ll = {n.rsplit("::", 1)[-1] for n in cg.bodies if n.startswith("<llfree::llfree::LLFree as llfree::Alloc>::") and "{closure" not in n}
    for w in ("ZoneAlloc", "NvmAlloc"):
        ws = {n.rsplit("::", 1)[-1] for n in cg.bodies if n.startswith("<llfree::wrapper::%s as llfree::Alloc>::" % w) and "{closure" not in n}
        rep.note("%s leaves these Alloc methods at their default although LLFree overrides them: %s" % (w, sorted(ll - ws)))


def r_nvm_layout(rep, prog):
    rule = "R-NVM-LAYOUT"
    rep.rule(rule, "frames | lower metadata | header are the disjoint parts of split_last_mut / split_at_mut; split point len - ceil(lower/FRAME_SIZE)")
    b = lib.need_body(prog, CREATE)
    rep.saw(CREATE)
    tm = T.Terms(b, prog)
    FS = prog.crate("llfree").const("llfree::frame::Frame::SIZE")
    zc = lib.find_calls(b, "llfree::wrapper::ZoneAlloc::create")
    if len(zc) != 1:
        rep.violation(rule, "create|zone-create", "expected one ZoneAlloc::create call", b.span)
        return
    zb, zt = zc[0]
    a = [tm.operand(x) for x in zt["args"]]

    def part(t):
        """Returns (split_at term, index) when t is `.0`/`.1` of a split_at_mut result."""
        t = T.strip_refs(t)
        if t[0] == "f" and t[1][0] == "call" and t[1][1] == "slice::split_at_mut":
            return t[1], t[2]
        return None, None
    # frames = len(front)
    fr = a[1]
    sp, idx = part(fr[2][0]) if fr[0] == "call" and fr[1] == "slice::len" else (None, None)
    rep.check(sp is not None and idx == 0, rule, "create|frames", "frame count = len(front part of split_at_mut)",
              "the frame count handed to ZoneAlloc::create is %s" % T.show(fr), zt["span"])
    if sp is None:
        return
    # base = as_ptr(front) / SIZE
    base = a[0]
    ok = False
    if base[0] == "bin" and base[1] == "Div" and T.const_val(base[3]) == FS:
        ptrs = [x for x in T.walk(base[2]) if x[0] == "call" and x[1] == "slice::as_ptr"]
        if ptrs:
            sp2, idx2 = part(ptrs[0][2][0])
            ok = sp2 is not None and T.canon(sp2) == T.canon(sp) and idx2 == 0
    rep.check(ok, rule, "create|offset", "zone offset = as_ptr(front part) / Frame::SIZE",
              "the zone offset is %s" % T.show(base)[:200], zt["span"])
    # lower = from_raw_parts_mut(back.as_mut_ptr(), m.lower)
    md = a[4]
    lower = None
    if md[0] == "agg" and md[1].startswith("adt:llfree::MetaData"):
        lower = md[2][2]
        rep.check(T.canon(md[2][0]) == ("p", "local") and T.canon(md[2][1]) == ("p", "trees"), rule, "create|volatile-buffers",
                  "local/trees buffers forwarded", "local/trees buffers are not the ones passed in", zt["span"])
    ok = False
    mlower = None
    if lower is not None and lower[0] == "call" and lower[1] == "core::slice::raw::from_raw_parts_mut":
        ptrs = [x for x in T.walk(lower[2][0]) if x[0] == "call" and x[1] == "slice::as_mut_ptr"]
        if ptrs:
            sp3, idx3 = part(ptrs[0][2][0])
            ok = sp3 is not None and T.canon(sp3) == T.canon(sp) and idx3 == 1
        mlower = lower[2][1]
    rep.check(ok, rule, "create|lower-buffer", "lower metadata = back part of the same split_at_mut",
              "the lower metadata buffer is %s" % (T.show(lower)[:200] if lower else "?"), zt["span"])
    # split operand: front part (.1) of split_last_mut(zone)
    src = T.strip_refs(sp[2][0])
    ok = src[0] == "f" and src[2] == 1 and T.mentions_call(src, "slice::split_last_mut") and T.mentions_param(src, "zone")
    rep.check(ok, rule, "create|split-source", "splits the zone without its last frame (the header)",
              "split_at_mut is applied to %s" % T.show(src)[:160], zt["span"])
    # split point
    n = sp[2][1]
    ok = False
    detail = T.show(n)[:200]
    if n[0] == "bin" and n[1].startswith("Sub"):
        lhs, rhs = n[2], n[3]
        ok_l = lhs[0] == "call" and lhs[1] == "slice::len" and T.canon(T.strip_refs(lhs[2][0])) == T.canon(src)
        ok_r = rhs[0] == "call" and rhs[1] == "usize::div_ceil" and T.const_val(rhs[2][1]) == FS and mlower is not None and T.canon(rhs[2][0]) == T.canon(mlower)
        ok = ok_l and ok_r
    rep.check(ok, rule, "create|split-point", "split point = len - div_ceil(m.lower, Frame::SIZE)",
              "split point is %s: when m.lower is not a whole number of frames the metadata (m.lower bytes from the split point) "
              "runs into the header page" % detail, zt["span"])
    # m.lower is metadata_size(classing, zone.len()).lower
    if mlower is not None:
        ok = mlower[0] == "f" and mlower[3] == "lower" and mlower[1][0] == "call" and mlower[1][1] == "llfree::Alloc::metadata_size"
        rep.check(ok, rule, "create|lower-size", "m = A::metadata_size(classing, zone.len())", "lower size is " + T.show(mlower), zt["span"])
    # header = cast(last element)
    casts = lib.find_calls(b, "llfree::frame::Frame::cast", "llfree::frame::Frame::cast_mut")
    ok = False
    for bi, t in casts:
        h = T.strip_refs(tm.operand(t["args"][0]))
        ok = h[0] == "f" and h[2] == 0 and T.mentions_call(h, "slice::split_last_mut")
    rep.check(ok, rule, "create|header", "header = the frame split off by split_last_mut", "header is not the last frame of the zone", b.span)
    # region guard dominates everything
    guard = None
    for s in range(b.nblocks()):
        if b.term(s)["k"] != "switch":
            continue
        c = tm.operand(b.term(s)["discr"])
        cmp_ = lib.normalize_cmp(c) if c[0] == "bin" else None
        if cmp_ and T.mentions_call(c, "core::mem::size_of_val"):
            guard = (s, c, cmp_)
            break
    if guard is None:
        rep.violation(rule, "create|region-guard", "no guard on the region size", b.span)
    else:
        s, c, cmp_ = guard
        # find the passing edge: the one that dominates ZoneAlloc::create
        # `a || b` chains: the failing edge goes to the error block, so the construction is reachable from exactly one outcome
        passing = [d for d in b.succ(s) if zb in lib.cfg.reachable_from(b, d)]
        rep.check(len(passing) == 1, rule, "create|region-guard-decides", "the construction is reachable from one outcome of the size test only",
                  "the allocator is constructed on both outcomes of the region-size test (e.g. `small && misaligned`): a region that is "
                  "too small for its own metadata is accepted", b.term(s).get("span"))
        pol = lib.bool_edge_polarity(b, s, passing[0]) if passing else None
        lhs, rel, rhs = cmp_ if pol else lib.negate_rel(cmp_)
        d = T._lin_add(T.linear(rhs), T.linear(lhs), -1)
        ok = False
        if d is not None and rel in ("le", "lt"):
            atoms, const = d
            if rel == "lt":
                const -= 1
            sv = [x for x, v in atoms.items() if x[0] == "call" and x[1] == "core::mem::size_of_val" and v == 1]
            lw = [x for x, v in atoms.items() if x[0] == "f" and x[2] == "lower" and v == -1]
            ok = len(atoms) == 2 and sv and lw and const == -FS
        rep.check(ok, rule, "create|region-guard", "continues only if size_of_val(zone) >= m.lower + Frame::SIZE",
                  "region-size guard is %s" % T.show(c), b.term(s).get("span"))
        rep.check(s in lib.cfg.dominators(b)[zb], rule, "create|region-guard-dominates", "guard dominates the construction", "guard does not dominate", b.term(s).get("span"))


def r_nvm_header(rep, prog):
    rule = "R-NVM-HEADER"
    rep.rule(rule, "Init::Recover only behind magic == MAGIC and frames == zone.len(); otherwise Err(Initialization); create stores both")
    b = lib.need_body(prog, CREATE)
    tm = T.Terms(b, prog)
    MAGIC = prog.crate("llfree").const("llfree::wrapper::Meta::MAGIC")
    rec = [(bi, si) for bi, si, s in b.stmts() if s["k"] == "assign" and s["rv"]["k"] == "aggregate" and s["rv"]["kind"].get("adt") == "llfree::Init"
           and s["rv"]["kind"]["variant"] == "Recover"]
    if len(rec) != 1:
        rep.violation(rule, "create|recover-site", "expected one Init::Recover construction, found %d" % len(rec), b.span)
        return
    rb = rec[0][0]
    span = b.blocks[rb]["stmts"][rec[0][1]]["span"]
    conds = []
    for s, d in lib.controlling_edges(b, rb):
        conds.append((tm.operand(b.term(s)["discr"]), lib.bool_edge_polarity(b, s, d)))
    has_flag = any(T.canon(c) == ("p", "recover") and pol is True for c, pol in conds)
    magic_ok = frames_ok = False
    len_term = None
    for c, pol in conds:
        cmp_ = lib.normalize_cmp(c) if c[0] == "bin" else None
        if not cmp_ or pol is None:
            continue
        lhs, rel, rhs = cmp_ if pol else lib.negate_rel(cmp_)
        if rel != "eq":
            continue
        sides = [lhs, rhs]
        loads = [x for x in sides if x[0] == "call" and x[1] == "core::sync::atomic::Atomic::load"]
        other = [x for x in sides if x not in loads]
        if len(loads) == 1 and len(other) == 1:
            fld = [y[3] for y in T.walk(loads[0]) if y[0] == "f" and y[3] in ("magic", "frames")]
            if fld == ["magic"] or (fld and fld[0] == "magic"):
                magic_ok = T.const_val(other[0]) == MAGIC
            if fld and fld[0] == "frames":
                frames_ok = other[0][0] == "call" and other[0][1] == "slice::len" and T.mentions_call(other[0], "slice::split_last_mut")
                len_term = T.canon(other[0])
    rep.check(has_flag, rule, "create|recover-flag", "only when recover == true", "Init::Recover is not guarded by the recover flag", span)
    rep.check(magic_ok, rule, "create|magic-check", "requires loaded magic == Meta::MAGIC",
              "recovery does not require the header magic to equal Meta::MAGIC: a region without an instance is accepted", span)
    rep.check(frames_ok, rule, "create|frames-check", "requires loaded frame count == zone.len()",
              "recovery does not require the stored frame count to equal the zone length: an instance of another size is accepted", span)
    # failure of either check returns Err(Initialization)
    ps = PathSens(b, prog)
    # create path stores magic and the same length
    st = lib.find_calls(b, "core::sync::atomic::Atomic::store")
    stored = {}
    for bi, t in st:
        fld = [y[3] for y in T.walk(tm.operand(t["args"][0])) if y[0] == "f" and y[3] in ("magic", "frames")]
        if fld:
            stored[fld[0]] = (tm.operand(t["args"][1]), bi, t)
    rep.check("magic" in stored and T.const_val(stored["magic"][0]) == MAGIC, rule, "create|store-magic", "fresh instance stores Meta::MAGIC",
              "fresh instance does not store Meta::MAGIC", b.span)
    rep.check("frames" in stored and len_term is not None and T.canon(stored["frames"][0]) == len_term, rule, "create|store-frames",
              "fresh instance stores the same zone length that recovery compares",
              "the stored frame count (%s) is not the length recovery compares with" % (T.show(stored["frames"][0]) if "frames" in stored else "none"), b.span)
    for k, (v, bi, t) in stored.items():
        conds2 = [(T.canon(tm.operand(b.term(s)["discr"])), lib.bool_edge_polarity(b, s, d)) for s, d in lib.controlling_edges(b, bi)]
        rep.check(any(c == ("p", "recover") and pol is False for c, pol in conds2), rule, "create|store-%s-only-fresh" % k,
                  "header is written only when not recovering", "the header field %s is overwritten on the recovery path" % k, t["span"])
    # error kind on mismatch
    errs = 0
    for rn in ps.return_nodes():
        env = ps.term_env_of(rn)
        if ps.ret_discr(rn) == 1 and env.get(("v", b.arg_local("recover"))) == 1 and env.get(("d", 0, ("as1", ".0"))) == 4:
            errs += 1
    rep.check(errs >= 1, rule, "create|mismatch-error", "header mismatch returns Err(Error::Initialization)",
              "no Err(Initialization) return on the recovery path", b.span)


def run(rep, programs):
    prog = programs["core"]
    c08.r_zone_flow(rep, prog)
    r_zone_outward(rep, prog)
    r_nvm_layout(rep, prog)
    r_nvm_header(rep, prog)
    # ZoneAlloc::create alignment guard
    b = lib.need_body(prog, "llfree::wrapper::ZoneAlloc::create")
    tm = T.Terms(b, prog)
    ok = False
    for s in range(b.nblocks()):
        if b.term(s)["k"] == "switch":
            c = tm.operand(b.term(s)["discr"])
            if c[0] == "call" and c[1] == "usize::is_multiple_of" and T.canon(c[2][0]) == ("p", "offset"):
                l = T.linear(c[2][1])
                ok = l is not None and (l == ({("pow2", ("c", prog.crate("llfree").const("llfree::TREE_ORDER"))): 1}, 0) or l == ({}, 1 << prog.crate("llfree").const("llfree::TREE_ORDER")))
    rep.check(ok, "R-ZONE-FLOW", "ZoneAlloc::create|offset-aligned", "offset must be a multiple of the tree size (frame/tree arithmetic commutes with the shift)",
              "ZoneAlloc::create does not require a tree-aligned offset", b.span)


def r_forward(rep, prog):
    rule = "R-FORWARD"
    rep.rule(rule, "sibling agreement: every NvmAlloc method forwards to the same method of its ZoneAlloc with its parameters in order; "
                   "ZoneAlloc's untranslated methods forward likewise to the inner allocator")
    n = 0
    for wrapper, inner_prefix, methods in (
        ("<llfree::wrapper::NvmAlloc as llfree::Alloc>::", "<llfree::wrapper::ZoneAlloc as llfree::Alloc>::",
         ["get", "put", "frames", "tree_stats", "stats", "stats_at", "drain", "metadata"]),
        ("<llfree::wrapper::ZoneAlloc as llfree::Alloc>::", "llfree::Alloc::", ["frames", "tree_stats", "stats", "drain", "metadata"]),
    ):
        for m in methods:
            b = prog.body(wrapper + m)
            if b is None:
                rep.violation(rule, wrapper + m, "method missing (falls back to the trait default)")
                continue
            n += 1
            tm = T.Terms(b, prog)
            calls = [(bi, t) for bi, t in b.calls() if lib.local_call(t)]
            ok = len(calls) == 1 and callee_name(calls[0][1]["callee"]) in (inner_prefix + m, "llfree::Alloc::" + m)
            detail = [callee_name(t["callee"]) for _, t in calls]
            if ok:
                a = [T.canon(tm.operand(x)) for x in calls[0][1]["args"]]
                recv_ok = a[0] == ("f", ("p", "self"), "alloc")
                params = [("p", b.local_name(i) or "_%d" % i) for i in range(2, b.arg_count + 1)]
                ok = recv_ok and a[1:] == params
                # and the result is returned unchanged
                rets = [tm.call_term(bi) if si == "term" else tm.rvalue(rv) for bi, si, rv in lib.assignments_to_return(b)]
                ok = ok and all(r[0] == "call" and r[1] == callee_name(calls[0][1]["callee"]) for r in rets if r[0] != "k") and bool(rets) or (ok and m == "drain")
                detail = "args %s" % (a,)
            rep.check(ok, rule, wrapper + m, "forwards to self.alloc.%s(..) unchanged" % m, "%s does not simply forward: %s" % (wrapper + m, detail), b.span)
    rep.floor(rule, "forwarding methods", n, 8)


_run_c17 = run


def run(rep, programs):  # noqa: F811
    _run_c17(rep, programs)
    r_forward(rep, programs["core"])
    # the zone's metadata lives in memory that is not zeroed: a fresh instance must write every entry, or stale "free" entries
    # beyond the managed range are handed out (frames over the metadata and header pages)
    from props import c06
    c06.r_init_coverage(rep, programs["core"])
    # the metadata and header pages start right behind the managed frames: the range guard of LLFree::check is what keeps a
    # targeted allocation or a free of a block that crosses the end from marking those pages free
    from props import c08
    c08.r_check_dom(rep, programs["core"])
    c08.r_check_guards(rep, programs["core"])


EXPLANATION = EXPLANATION + (
    " R-CHECK-DOM / R-CHECK-GUARDS (shared with C08): the pages behind the managed frames hold the wrapper's metadata; LLFree::check's range guard keeps frees and targeted allocations off them."
)
