"""C10 — after a drain, allocation fails only when nothing suitable is free.
Claimed clauses: R-DRAIN-TOTAL, R-GLOBAL-SEARCH-DOMAIN, R-GETAT-FALLTHROUGH (DESIGN.md §4 C10)."""
import cfg
import lib
import terms as T
from facts import callee_name
from pathsens import PathSens

KINDS = ["core"]
LEVEL_TEXT = ("loop-coverage and dominance rules over rustc MIR: decides that drain releases every present reservation of every "
              "slot of every class, that the global tree search visits its whole domain and skips only reserved / Invalid-rated "
              "trees, and that a targeted allocation always falls through to the global steal; the iff itself is not decided")
TECHNIQUE = "loop-exit / skip-edge analysis on the CFG, iterator-domain terms, path-sensitive fall-through check"
EXPLANATION = (
    "R-DRAIN-TOTAL: Locals::drain iterates the whole classes array and each class's whole slot slice, leaves both loops only by "
    "exhaustion, takes every slot with an unconditional swap(LocalTree::none()) (or a try_update guarded exactly by present()), "
    "calls the callback for every present reservation with (row, class, free) of the value taken; LLFree::drain's callback unreserves "
    "that tree with that counter and class. R-GLOBAL-SEARCH-DOMAIN: both global searches call search_best(start, 0, trees.len(), ..); "
    "search_best/search iterate offset..len, index (start + entries.len() +/- i/2) % entries.len(), skip an element only when the tree "
    "is reserved or rated Invalid, and exit early only by returning a non-Memory result of access; rating closures of the global "
    "searches produce Invalid only when free < 2^order. R-GETAT-FALLTHROUGH: get_at reaches steal_global(frame.as_tree(), class, "
    "order, Some(frame)) on every path where the local attempt is absent or failed; steal_global fails only via Trees::steal or Lower::get. R-UNDO (shared with C02): an allocation attempt that fails after "
    "taking frames from a tree or reservation counter gives them back, so failed attempts do not hide free frames from later searches."
)

DRAIN = "llfree::local::Locals::drain"
SEARCH_BEST = "llfree::trees::Trees::search_best"
LT = "llfree::local::LocalTree::"


def loop_info(b):
    """[(header, blocks, exits)] exits = [(from, to)] leaving the loop."""
    out = []
    for h, blocks in cfg.natural_loops(b):
        exits = [(a, d) for a in blocks for d in b.succ(a) if d not in blocks]
        out.append((h, blocks, exits))
    return out


def iter_loop_header(b, tm, h):
    """If block h (or its single successor) switches on the result of an Iterator::next call made in h,
    returns (next_call_term, none_target_blocks, some_target)."""
    t = b.term(h)
    if t["k"] != "call":
        return None
    name = callee_name(t["callee"]) or ""
    if not name.endswith("::next"):
        return None
    nb = t["target"]
    st = b.term(nb)
    if st["k"] != "switch":
        return None
    none_t = [tg for v, tg in st["targets"] if v == 0]
    some_t = [tg for v, tg in st["targets"] if v == 1]
    # `while let Some(..) = it.next()` tests only one variant: the other one is the otherwise edge
    explicit = {tg for _, tg in st["targets"]}
    other = [d for d in b.succ(nb) if d not in explicit]
    if not none_t and some_t:
        none_t = other
    elif not some_t and none_t:
        some_t = other
    return (tm.call_term(h), nb, none_t, some_t)


def exits_only_by_exhaustion(b, tm, h, blocks, exits, allow_return_from=()):
    """True iff every exit edge of the loop leaves from the None arm of the header's next() test
    (diverging panic blocks are ignored)."""
    info = iter_loop_header(b, tm, h)
    if info is None:
        return False, "loop header is not an Iterator::next test"
    _, nb, none_t, some_t = info
    for a, d in exits:
        if a == nb and d in none_t:
            continue
        # edges into blocks that cannot reach a return (panics) are not exits of interest
        r = cfg.reachable_from(b, d)
        if not any(b.term(x)["k"] == "return" for x in r):
            continue
        if a in allow_return_from:
            continue
        return False, "the loop can be left early through bb%d -> bb%d (%s)" % (a, d, lib.span_of(b.term(a)) and "%s:%d" % (
            lib.span_of(b.term(a))["f"], lib.span_of(b.term(a))["l"]) or "?")
    return True, ""


def r_drain_total(rep, prog):
    rule = "R-DRAIN-TOTAL"
    rep.rule(rule, "drain takes every present reservation of every slot of every class and hands it to the callback, which unreserves it")
    b = lib.need_body(prog, DRAIN)
    rep.saw(DRAIN)
    tm = T.Terms(b, prog)
    loops = loop_info(b)
    rep.check(len(loops) == 2, rule, "drain|two-loops", "outer loop over classes, inner loop over slots",
              "expected two nested loops in Locals::drain, found %d" % len(loops), b.span)
    if len(loops) != 2:
        return
    loops.sort(key=lambda x: -len(x[1]))
    (oh, oblocks, oexits), (ih, iblocks, iexits) = loops
    # domains
    oinfo = iter_loop_header(b, tm, oh)
    iinfo = iter_loop_header(b, tm, ih)
    if oinfo is None or iinfo is None:
        rep.violation(rule, "drain|iterator-loops", "loops are not iterator loops", b.span)
        return
    osrc = oinfo[0][2][0]
    whole_classes = any(x[0] == "f" and x[3] == "classes" and T.strip_refs(x[1])[0] == "p" for x in T.walk(osrc))
    trunc = [x[1] for x in T.walk(osrc) if x[0] == "call" and x[1].split("::")[-1] in ("take", "skip", "step_by", "take_while", "skip_while", "filter")]
    sub = [x for x in T.walk(osrc) if x[0] in ("subslice",) or (x[0] == "call" and x[1].endswith("::index"))]
    rep.check(whole_classes and not trunc and not sub, rule, "drain|outer-domain", "iterates self.classes entirely",
              "outer loop does not iterate the whole classes array: " + T.show(osrc), b.term(oh)["span"])
    isrc = iinfo[0][2][0]
    whole_slots = any(x[0] == "call" and x[1] == "llfree::util::OffsetSlice::as_slice" for x in T.walk(isrc))
    trunc = [x[1] for x in T.walk(isrc) if x[0] == "call" and x[1].split("::")[-1] in ("take", "skip", "step_by", "take_while", "skip_while", "filter")]
    sub = [x for x in T.walk(isrc) if x[0] in ("subslice",) or (x[0] == "call" and x[1].endswith("::index"))]
    rep.check(whole_slots and not trunc and not sub, rule, "drain|inner-domain", "iterates the class's whole slot slice",
              "inner loop does not iterate the whole slot slice: " + T.show(isrc), b.term(ih)["span"])
    ok, why = exits_only_by_exhaustion(b, tm, oh, oblocks, oexits)
    rep.check(ok, rule, "drain|outer-exhaustive", "outer loop exits only by exhaustion", "outer loop: " + why, b.term(oh)["span"])
    ok, why = exits_only_by_exhaustion(b, tm, ih, iblocks, iexits)
    rep.check(ok, rule, "drain|inner-exhaustive", "inner loop exits only by exhaustion", "inner loop: " + why, b.term(ih)["span"])
    # unconfigured classes are the only skipped outer elements: the inner loop is control dependent only on the Some test of the element
    ces = [e for e in lib.controlling_edges(b, ih) if e[0] in oblocks and e[0] != oinfo[1]]
    for s, d in ces:
        c = tm.operand(b.term(s)["discr"])
        rep.check(c[0] == "discr", rule, "drain|class-skip", "a class is skipped only when it is not configured (None)",
                  "a class's slots are skipped under the condition " + T.show(c), b.term(s).get("span"))
    # the take
    swaps = [(bi, t) for bi, t in b.calls_to("llfree::atomic::Atom::swap") if bi in iblocks]
    upds = [(bi, t) for bi, t in b.calls_to("llfree::atomic::Atom::try_update") if bi in iblocks]
    take = None
    if len(swaps) == 1:
        sb, st = swaps[0]
        v = tm.operand(st["args"][1])
        rep.check(v[0] == "call" and v[1] == LT + "none", rule, "drain|take-none", "slot is replaced by LocalTree::none()",
                  "slot is swapped with %s, not LocalTree::none()" % T.show(v), st["span"])
        take = sb
    elif len(upds) == 1 and not swaps:
        ub, ut = upds[0]
        ct = tm.operand(ut["args"][1])
        clos = [x for x in T.walk(ct) if x[0] == "agg" and x[1].startswith("closure:")]
        good = False
        detail = "?"
        if clos:
            cb = prog.body(clos[0][1][len("closure:"):])
            if cb is not None:
                ctm = T.Terms(cb, prog)
                for bi, t in cb.calls_to("bool::then_some", "bool::then"):
                    g = T.canon(ctm.operand(t["args"][0]))
                    detail = T.show(ctm.operand(t["args"][0]))
                    good = g == ("call", LT + "present", (("p", cb.local_name(2) or "_2"),))
        rep.check(good, rule, "drain|take-guard", "slot is taken whenever it is present",
                  "a present reservation is not always taken: the update is guarded by `%s` instead of present() — frames freed "
                  "into its (still reserved) tree through other slots stay unreachable after the drain" % detail, ut["span"])
        take = ub
    else:
        rep.violation(rule, "drain|take", "no single unconditional take (swap / guarded try_update) of the slot in the inner loop", b.term(ih)["span"])
    if take is not None:
        # unconditional within an iteration: every path from the Some arm back to the header passes the take
        some_t = iinfo[3]
        bypass = False
        for s in some_t:
            r = cfg.reachable_from(b, s, stop={take})
            if ih in r:
                bypass = True
        rep.check(not bypass, rule, "drain|take-every-slot", "every iteration takes its slot",
                  "an iteration of the slot loop can skip the take", b.term(take)["span"])
    # callback
    cbs = [(bi, t) for bi, t in b.calls() if (callee_name(t["callee"]) or "").endswith("ops::function::Fn::call") and bi in iblocks]
    if len(cbs) != 1:
        rep.violation(rule, "drain|callback", "expected one callback invocation in the slot loop, found %d" % len(cbs), b.span)
    else:
        cb_b, cb_t = cbs[0]
        args = tm.operand(cb_t["args"][1])
        good = False
        if args[0] == "agg" and len(args[2]) == 3:
            r_, c_, f_ = args[2]
            taken = lambda x: T.mentions_call(x, "llfree::atomic::Atom::swap") or T.mentions_call(x, "llfree::atomic::Atom::try_update")
            good = (r_[0] == "call" and r_[1] == LT + "row" and taken(r_) and f_[0] == "call" and f_[1] == LT + "free" and taken(f_)
                    and c_[0] == "agg" and c_[1].startswith("adt:llfree::Class"))
        rep.check(good, rule, "drain|callback-args", "callback gets (old.row(), Class(i), old.free()) of the value taken",
                  "callback arguments are not (row, class, free) of the taken reservation: " + T.show(args), cb_t["span"])
        ces = [e for e in lib.controlling_edges(b, cb_b) if e[0] in iblocks and e[0] != iinfo[1]]
        conds = [(tm.operand(b.term(s)["discr"]), lib.bool_edge_polarity(b, s, d)) for s, d in ces]
        good = len(conds) == 1 and conds[0][0][0] == "call" and conds[0][0][1] == LT + "present" and conds[0][1] is True
        rep.check(good, rule, "drain|callback-cond", "callback runs exactly when the taken value was present",
                  "callback is guarded by %s" % [(T.show(c), p) for c, p in conds], cb_t["span"])
    # LLFree::drain
    d = lib.need_body(prog, "<llfree::llfree::LLFree as llfree::Alloc>::drain")
    rep.saw(d.name)
    dcalls = lib.find_calls(d, DRAIN)
    rep.check(len(dcalls) == 1, rule, "LLFree::drain|calls-locals-drain", "calls Locals::drain", "LLFree::drain does not call Locals::drain", d.span)
    c = lib.need_body(prog, d.name + "::{closure#0}")
    ctm = T.Terms(c, prog)
    un = lib.find_calls(c, "llfree::trees::Trees::unreserve")
    if len(un) != 1:
        rep.violation(rule, "LLFree::drain|unreserve", "the drain callback does not call Trees::unreserve exactly once", c.span)
    else:
        ub, ut = un[0]
        a = [T.canon(ctm.operand(x)) for x in ut["args"]]
        rep.check(a[1] == ("call", "llfree::bitfield::RowId::as_tree", (("p", "row"),)) and a[2] == ("p", "free") and a[3] == ("p", "class"),
                  rule, "LLFree::drain|unreserve-args", "unreserve(row.as_tree(), free, class, policy)",
                  "unreserve arguments are not those of the drained reservation: %s" % [T.show(ctm.operand(x)) for x in ut["args"]], ut["span"])
        rep.check(not lib.controlling_edges(c, ub), rule, "LLFree::drain|unreserve-unconditional", "unconditional", "unreserve is conditional", ut["span"])


def rating_invalid_sites(prog, cname, seen=None):
    """[(body, block, span)] of Policy::Invalid constructions in closure cname and the closures it calls."""
    seen = seen or set()
    if cname in seen:
        return []
    seen.add(cname)
    b = prog.body(cname)
    if b is None:
        return []
    out = []
    for bi, si, s in b.stmts():
        if s["k"] == "assign" and s["rv"]["k"] == "aggregate" and s["rv"]["kind"]["k"] == "adt" and \
                s["rv"]["kind"]["adt"] == "llfree::Policy" and s["rv"]["kind"]["variant"] == "Invalid":
            out.append((b, bi, s["span"]))
        if s["k"] == "assign" and s["rv"]["k"] == "use" and s["rv"]["op"]["k"] == "const" and s["rv"]["op"].get("adt") == "llfree::Policy":
            if s["rv"]["op"].get("val") == 3:
                out.append((b, bi, s["span"]))
    for bi, t in b.calls():
        n = callee_name(t["callee"]) or ""
        if "{closure#" in n and n != cname:
            out += rating_invalid_sites(prog, n, seen)
    return out


def r_global_search(rep, prog):
    rule = "R-GLOBAL-SEARCH-DOMAIN"
    rep.rule(rule, "global searches cover all trees: search_best(start, 0, trees.len()); element skipped only if reserved or rated Invalid; "
                   "early exit only with a non-Memory access result; rating closures say Invalid only when free < 2^order")
    n_sites = 0
    for fn in ("<llfree::llfree::LLFree as llfree::Alloc>::get", "llfree::llfree::LLFree::search_and_reserve"):
        b = lib.need_body(prog, fn)
        rep.saw(fn)
        tm = T.Terms(b, prog)
        sites = lib.find_calls(b, SEARCH_BEST)
        glob = []
        for bi, t in sites:
            off = T.const_val(tm.operand(t["args"][2]))
            ln = T.canon(tm.operand(t["args"][3]))
            is_len = ln[0] == "call" and ln[1] == "llfree::trees::Trees::len"
            if off == 0 or is_len:
                glob.append((bi, t, off, is_len))
        rep.check(len(glob) == 1, rule, "%s|global-search" % fn, "one global search", "expected one global search_best call, found %d" % len(glob), b.span)
        for bi, t, off, is_len in glob:
            n_sites += 1
            rep.check(off == 0, rule, "%s|offset" % fn, "offset 0", "global search starts at offset %s, not 0" % off, t["span"])
            rep.check(is_len, rule, "%s|len" % fn, "length = self.trees.len()",
                      "global search length is %s, not self.trees.len()" % T.show(tm.operand(t["args"][3])), t["span"])
            # rating closure
            rate = tm.operand(t["args"][4])
            clos = [x for x in T.walk(rate) if x[0] == "agg" and x[1].startswith("closure:")]
            if not clos:
                rep.violation(rule, "%s|rate-closure" % fn, "rating argument is not a closure: " + T.show(rate), t["span"])
                continue
            for cb, ib, span in rating_invalid_sites(prog, clos[0][1][len("closure:"):]):
                ctm = T.Terms(cb, prog)
                ces = lib.controlling_edges(cb, ib)
                good = False
                detail = "unconditional"
                for s, d in ces:
                    c = ctm.operand(cb.term(s)["discr"])
                    pol = lib.bool_edge_polarity(cb, s, d)
                    cmp_ = lib.normalize_cmp(c) if c[0] == "bin" else None
                    if cmp_ is None or pol is None:
                        detail = T.show(c)
                        continue
                    lhs, rel, rhs = cmp_ if pol else lib.negate_rel(cmp_)
                    # condition for Invalid must be: free < 2^order
                    l2 = T.linear(rhs)
                    isfree = T.canon(lhs)[0] == "p" and T.canon(lhs)[1] in ("free", "f")
                    if rel == "lt" and isfree and l2 is not None and l2[1] == 0 and len(l2[0]) == 1 and list(l2[0].keys())[0][0] == "pow2":
                        good = True
                    detail = "%s %s %s" % (T.show(lhs), rel, T.show(rhs))
                rep.check(good, rule, "%s|invalid-only-too-small|%s" % (fn, cb.name.split("::")[-1]),
                          "Invalid only when free < 2^order", "the global rating closure declares a tree Invalid under `%s`: "
                          "a tree with enough free frames can be skipped" % detail, span)
            # access closure reaches the reservation helper with the visited tree
            acc = tm.operand(t["args"][5])
            rep.check(any(x[0] == "agg" and x[1].startswith("closure:") for x in T.walk(acc)) or acc[0] in ("l", "&"), rule,
                      "%s|access" % fn, "access closure passed", "no access closure", t["span"])
    rep.floor(rule, "global search call sites", n_sites, 2)
    # inside search_best / search
    for fn, work_names in ((SEARCH_BEST, ("ops::function::Fn::call",)), ("llfree::trees::Trees::search", ("ops::function::Fn::call",))):
        b = lib.need_body(prog, fn)
        rep.saw(fn)
        tm = T.Terms(b, prog)
        loops = loop_info(b)
        main = None
        for h, blocks, exits in loops:
            info = iter_loop_header(b, tm, h)
            if info is None:
                continue
            src = info[0][2][0]
            rng = [x for x in T.walk(src) if x[0] == "agg" and x[1].startswith("adt:core::ops::range::Range::Range")]
            if rng and T.canon(rng[0][2][0]) == ("p", "offset") and T.canon(rng[0][2][1]) == ("p", "len"):
                main = (h, blocks, exits, info)
        if main is None:
            rep.violation(rule, "%s|domain" % fn, "no loop over offset..len", b.span)
            continue
        h, blocks, exits, info = main
        rep.ok(rule, "%s|domain" % fn, "iterates offset..len", b.term(h)["span"])
        # visited index
        loads = [(bi, t) for bi, t in b.calls_to("llfree::atomic::Atom::load") if bi in blocks]
        acc_calls = [(bi, t) for bi, t in b.calls() if (callee_name(t["callee"]) or "").endswith("ops::function::Fn::call") and bi in blocks]
        idx_terms = []
        if fn == SEARCH_BEST:
            for bi, t in loads:
                r = tm.operand(t["args"][0])
                idx_terms += [x[2] for x in T.walk(r) if x[0] == "idx"]
        else:
            for bi, t in acc_calls:
                a = tm.operand(t["args"][1])
                idx_terms.append(a)
        good = False
        detail = "no index"
        for it in idx_terms:
            rems = [x for x in T.walk(it) if x[0] == "bin" and x[1] == "Rem"]
            for r in rems:
                m = T.canon(r[3])
                mod_ok = m[0] == "call" and m[1] == "slice::len" and any(y == ("f", ("p", "self"), "entries") for y in T.walk(m))
                mentions = T.mentions_param(r[2], "start") and _mentions_next(b, tm, r[2]) and T.mentions_call(r[2], "slice::len")
                good = mod_ok and mentions
                detail = T.show(r)
        rep.check(good, rule, "%s|index" % fn, "visits (start + entries.len() +/- i/2) % entries.len()",
                  "visited index is not (start + len +/- i/2) %% entries.len(): %s" % detail, b.term(h)["span"])
        # the offsets enumerate a permutation of the trees: +i/2 for even i, -ceil(i/2) for odd i (or a plain linear scan)
        offs = set()
        for it in idx_terms:
            for alt in T.alternatives(tm, it):
                for r in [x for x in T.walk(alt) if x[0] == "bin" and x[1] == "Rem"]:
                    offs |= _offset_forms(r[2])
        perm = offs in ({"+i/2", "-ceil(i/2)"}, {"+i"}, {"-i"})
        if offs == {"+i/2", "-ceil(i/2)"}:
            # the two forms alternate: selected by i.is_multiple_of(2) (or i % 2 == 0)
            sel_ok = False
            for s_ in blocks:
                tt = b.term(s_)
                if tt["k"] != "switch":
                    continue
                c = tm.operand(tt["discr"])
                if c[0] == "call" and c[1] == "usize::is_multiple_of" and T.const_val(c[2][1]) == 2 and any(
                        y[0] == "call" and y[1].endswith("::next") for y in T.walk(c[2][0])):
                    sel_ok = True
                cm = lib.normalize_cmp(c) if c[0] == "bin" else None
                if cm and cm[1] in ("eq", "ne"):
                    for side in (cm[0], cm[2]):
                        sd = T.strip_casts(side)
                        if sd[0] == "bin" and sd[1] in ("Rem", "BitAnd") and T.const_val(sd[3]) in (2, 1):
                            sel_ok = True
            perm = sel_ok
            if not sel_ok:
                offs = set(offs) | {"(not alternating on i % 2)"}
        rep.check(perm, rule, "%s|permutation" % fn, "offsets %s visit every tree once" % sorted(offs),
                  "the visiting offsets are %s, not {+i/2 (even i), -ceil(i/2) (odd i)}: some trees are visited twice and others never, "
                  "so a tree with free frames (or the tree a change is looking for) can be missed" % sorted(offs), b.term(h)["span"])
        # skip edges
        work = {bi for bi, t in acc_calls if _is_access(tm, t)}
        work |= {bi for bi, t in b.calls_to("llfree::util::SortedBuffer::add") if bi in blocks}
        allowed = set()
        for s in blocks:
            t = b.term(s)
            if t["k"] != "switch":
                continue
            c = tm.operand(t["discr"])
            for d in b.succ(s):
                if c[0] == "call" and c[1] == "llfree::trees::Tree::reserved" and lib.bool_edge_polarity(b, s, d) is True:
                    allowed.add((s, d))
                if c[0] == "discr" and b.local_ty(t["discr"]["place"]["l"]) in ("isize",) and 3 in lib.switch_value_for_edge(b, s, d):
                    src = T.strip_refs(c[1])
                    if src[0] == "call" and src[1].endswith("ops::function::Fn::call"):
                        allowed.add((s, d))
        some_t = info[3]
        bad = False
        for s0 in some_t:
            r = cfg.reachable_from(b, s0, stop=work | {h}, skip_edges=allowed)
            # did we get back to the header without work?
            for x in r:
                if h in b.succ(x) and x in blocks and (x, h) not in allowed:
                    bad = True
        rep.check(not bad, rule, "%s|skips" % fn, "an element is skipped only if reserved or rated Invalid",
                  "an iteration can skip its tree for another reason than reserved()/Invalid", b.term(h)["span"])
        # exits: exhaustion or return of access result that is not Err(Memory)
        ps = PathSens(b, prog)
        early = [(a, d) for a, d in exits if not (a == info[1] and d in info[2])]
        for a, d in early:
            r = cfg.reachable_from(b, d)
            if not any(b.term(x)["k"] == "return" for x in r):
                continue
            # the state leaving here must know the access result is not Err(Memory)
            sts = ps.states_at(d)
            good = bool(sts)
            for _, env in sts:
                accs = [bi for bi in work if env.get(("c", bi)) is not None or any(k[0] == "d" and k[2] == () for k in env)]
            # structural: the edge source block is (transitively) a test of an access result
            ok_edge = False
            cands = [a] + [s for s, dd in lib.controlling_edges(b, d)[-3:]]
            for s in cands:
                if b.term(s)["k"] != "switch":
                    continue
                c = tm.operand(b.term(s)["discr"])
                if c[0] == "discr" and any(x[0] == "call" and x[1].endswith("ops::function::Fn::call") for x in T.walk(c)):
                    ok_edge = True
            # ... and the result is known to be Ok or an error other than Memory (a Memory result must continue the search)
            ok_edge = early_exit_has_result(b, prog, d, [(bi, t) for bi, t in acc_calls if _is_access(tm, t)])
            rep.check(ok_edge, rule, "%s|early-exit" % fn, "early exit only on a non-Memory access result",
                      "the search loop can be left early at bb%d -> bb%d without an access result" % (a, d), b.term(a).get("span"))


def _offset_forms(t):
    """Classifies the loop-variable dependent summands of an index expression: '+i/2', '-ceil(i/2)', '+i', '-i' or the raw term."""
    out = set()

    def is_i(x):
        x = T.strip_casts(x)
        while x[0] == "call" and x[1] in ("usize::cast_signed", "isize::cast_unsigned"):
            x = T.strip_casts(x[2][0])
        return x[0] == "f" and any(y[0] == "call" and y[1].endswith("::next") for y in T.walk(x))

    def strip(x):
        while True:
            x = T.strip_casts(x)
            if x[0] == "call" and x[1] in ("usize::cast_signed", "isize::cast_unsigned"):
                x = x[2][0]
                continue
            return x

    def go(x, sign):
        x = strip(x)
        if x[0] == "bin" and x[1].startswith("Add"):
            go(x[2], sign)
            go(x[3], sign)
        elif x[0] == "bin" and x[1].startswith("Sub"):
            go(x[2], sign)
            go(x[3], -sign)
        elif x[0] == "un" and x[1] == "Neg":
            go(x[2], -sign)
        elif not any(y[0] == "call" and y[1].endswith("::next") for y in T.walk(x)):
            return
        elif is_i(x):
            out.add("+i" if sign > 0 else "-i")
        elif x[0] == "bin" and x[1] == "Div" and is_i(x[2]) and T.const_val(x[3]) == 2:
            out.add("+i/2" if sign > 0 else "-i/2")
        elif x[0] == "bin" and x[1] == "Shr" and is_i(x[2]) and T.const_val(x[3]) == 1:
            out.add("+i/2" if sign > 0 else "-i/2")
        elif x[0] == "call" and x[1] == "usize::div_ceil" and is_i(x[2][0]) and T.const_val(x[2][1]) == 2:
            out.add("+ceil(i/2)" if sign > 0 else "-ceil(i/2)")
        else:
            out.add(("+" if sign > 0 else "-") + T.show(x)[:40])
    go(t, 1)
    return out


def early_exit_has_result(b, prog, d, acc_calls):
    """Path-sensitive form of `left early only with a non-Memory access result`: in every state entering block d the result of
    an access call of the loop is known to be Ok, or Err with a known error other than Memory."""
    mem = [v["discr"] for v in prog.crate("llfree").adts["llfree::Error"]["variants"] if v["name"] == "Memory"][0]
    ps = PathSens(b, prog, track=lambda n: bool(n) and n.endswith("ops::function::Fn::call"))
    sts = ps.states_at(d)
    if not sts or not acc_calls:
        return False
    dests = [t["dest"]["l"] for _, t in acc_calls if not t["dest"].get("p")]
    for _, env in sts:
        ok = False
        for dl in dests:
            dv = env.get(("d", dl, ()))
            if dv == 0:
                ok = True
            elif dv == 1 and env.get(("d", dl, ("as1", ".0"))) not in (None, mem):
                ok = True
            elif dv == 1 and mem in env.get(("nd", dl, ("as1", ".0")), ()):
                ok = True        # tested and found to be another error than Memory
        if not ok:
            return False
    return True


def _mentions_next(b, tm, t, depth=0):
    """The term depends on the loop variable, looking through multi-definition locals (if/else values)."""
    for x in T.walk(t):
        if x[0] == "call" and x[1].endswith("::next"):
            return True
        if x[0] == "l" and depth < 4:
            for (bi, si) in b.whole_defs(x[1]):
                dt = tm.call_term(bi) if si == "term" else tm.rvalue(b.blocks[bi]["stmts"][si]["rv"])
                if _mentions_next(b, tm, dt, depth + 1):
                    return True
    return False


def _is_access(tm, t):
    a = tm.operand(t["args"][0])
    return T.canon(a) == ("p", "access")


def r_reserve_fallthrough(rep, prog):
    """search_and_reserve (and the slot-less branch of get) report out-of-memory only after the *global* search - the
    search_best over all trees, offset 0 - has run and failed; the near search is only a shortcut."""
    rule = "R-GLOBAL-SEARCH-DOMAIN"
    fn = "llfree::llfree::LLFree::search_and_reserve"
    b = lib.need_body(prog, fn)
    rep.saw(fn)
    tm = T.Terms(b, prog)
    glob = []
    for bi, t in b.calls_to(SEARCH_BEST):
        a = [tm.operand(x) for x in t["args"]]
        if T.const_val(a[2]) == 0 and a[3][0] == "call" and a[3][1] in ("llfree::trees::Trees::len", "slice::len"):
            glob.append(bi)
    if len(glob) != 1:
        rep.violation(rule, "search_and_reserve|global-search", "expected one search_best(_, 0, trees.len(), ..) in search_and_reserve, found %d" % len(glob), b.span)
        return
    ps = PathSens(b, prog)
    mem = [v["discr"] for v in prog.crate("llfree").adts["llfree::Error"]["variants"] if v["name"] == "Memory"][0]
    bad = 0
    n = 0
    for rn in ps.return_nodes():
        env = ps.term_env_of(rn)
        if ps.ret_discr(rn) == 0:
            continue
        n += 1
        if ps.ret_discr(rn) is None:
            # the result of a call that writes the return place directly: it has to be the global search
            writers = [wb for wb, wt in b.calls() if wt["dest"]["l"] == 0 and not wt["dest"].get("p")]
            if writers == [glob[0]]:
                continue
        if env.get(("c", glob[0])) is None and ps.block_of(rn) != glob[0]:
            # allowed: the near search ended with an error other than Memory, which is passed on (`r => return r`)
            passed_on = False
            for nb, nt in b.calls_to(SEARCH_BEST):
                if nb == glob[0] or nt["dest"].get("p"):
                    continue
                if env.get(("c", nb)) == 1 and (mem in env.get(("nd", nt["dest"]["l"], ("as1", ".0")), ())
                                                  or env.get(("d", 0, ("as1", ".0"))) != mem):
                    # the returned error is the near search's own (a freshly built Err(Error::Memory) has a known payload)
                    passed_on = True
            if not passed_on:
                bad += 1
    rep.check(bad == 0 and n > 0 or (n == 0), rule, "search_and_reserve|fails-after-global-search",
              "every failing return comes after the search over all trees",
              "search_and_reserve can report failure on %d path(s) without having searched all trees: trees outside the near window "
              "(or not acceptable to the near filter) are never tried" % bad, b.span)


def r_getat(rep, prog):
    rule = "R-GETAT-FALLTHROUGH"
    rep.rule(rule, "get_at: every path on which the local attempt is absent or failed reaches steal_global(frame.as_tree(), class, order, Some(frame)); "
                   "steal_global fails only via Trees::steal / Lower::get")
    fn = "llfree::llfree::LLFree::get_at"
    b = lib.need_body(prog, fn)
    rep.saw(fn)
    tm = T.Terms(b, prog)
    sg = lib.find_calls(b, "llfree::llfree::LLFree::steal_global")
    gl = lib.find_calls(b, "llfree::llfree::LLFree::get_local")
    if len(sg) != 1:
        rep.violation(rule, "get_at|steal_global-call", "expected one steal_global call, found %d" % len(sg), b.span)
        return
    sb, st = sg[0]
    a = [T.canon(tm.operand(x)) for x in st["args"]]
    good = (a[1] == ("call", "llfree::FrameId::as_tree", (("p", "frame"),)) and a[2] == ("f", ("p", "request"), "class")
            and a[3] == ("f", ("p", "request"), "order"))
    fr = tm.operand(st["args"][4])
    good = good and fr[0] == "agg" and fr[1].startswith("adt:core::option::Option::Some") and T.canon(fr[2][0]) == ("p", "frame")
    rep.check(good, rule, "get_at|steal_global-args", "steal_global(frame.as_tree(), request.class, request.order, Some(frame))",
              "steal_global is called with %s" % [T.show(tm.operand(x)) for x in st["args"]], st["span"])
    ps = PathSens(b, prog, err_domains=lib.error_domains(prog))
    bad = 0
    for rn in ps.return_nodes():
        env = ps.term_env_of(rn)
        if env.get(("c", sb)) is not None:
            continue
        local_ok = any(env.get(("c", gb)) == 0 for gb, _ in gl)
        if not local_ok:
            bad += 1
    rep.check(bad == 0, rule, "get_at|fallthrough", "every return either follows steal_global or a successful local attempt",
              "get_at can return without trying steal_global although the local attempt did not succeed", b.span)
    # local attempt passes the target frame
    for gb, gt in gl:
        fa = tm.operand(gt["args"][4])
        rep.check(fa[0] == "agg" and "Some" in fa[1] and T.canon(fa[2][0]) == ("p", "frame"), rule, "get_at|local-target",
                  "local attempt is targeted at the frame", "local attempt is not targeted: " + T.show(fa), gt["span"])
    # steal_global's failures
    fn = "llfree::llfree::LLFree::steal_global"
    b = lib.need_body(prog, fn)
    rep.saw(fn)
    ps = PathSens(b, prog)
    ts = lib.find_calls(b, "llfree::trees::Trees::steal")
    lg = lib.find_calls(b, "llfree::lower::Lower::get")
    if len(ts) != 1 or len(lg) != 1:
        rep.violation(rule, "steal_global|shape", "expected one Trees::steal and one Lower::get", b.span)
        return
    tb, lb = ts[0][0], lg[0][0]
    tmm = T.Terms(b, prog)
    la = [T.canon(tmm.operand(x)) for x in lg[0][1]["args"]]
    rep.check(la[3] == ("p", "frame") and la[2] == ("p", "order"), rule, "steal_global|lower-args", "Lower::get(.., order, frame)",
              "Lower::get is not given the target frame/order", lg[0][1]["span"])
    for rn in ps.return_nodes():
        if ps.ret_discr(rn) == 1:
            env = ps.term_env_of(rn)
            good = env.get(("c", tb)) == 0 or env.get(("c", lb)) == 1
            rep.check(good, rule, "steal_global|err-cause", "fails only when Trees::steal or Lower::get failed",
                      "steal_global can fail for another reason than Trees::steal / Lower::get", b.span)
    # Tree::steal refuses only: counter too small, reserved, Invalid (or Demote of a reserved tree)
    fn = "llfree::trees::Tree::steal"
    b = lib.need_body(prog, fn)
    tmm = T.Terms(b, prog)
    ps = PathSens(b, prog)
    nones = [bi for bi, si, rv in lib.assignments_to_return(b) if si != "term" and rv["k"] == "aggregate" and rv["kind"].get("variant") == "None"]
    for nb in nones:
        ces = lib.controlling_edges(b, nb)
        last = ces[-1] if ces else None
        why = "?"
        ok = False
        if last:
            c = tmm.operand(b.term(last[0])["discr"])
            pol = lib.bool_edge_polarity(b, last[0], last[1])
            if c[0] == "call" and c[1] == "llfree::trees::Tree::reserved" and pol is True:
                ok, why = True, "reserved"
            elif c[0] == "discr":
                vals = lib.switch_value_for_edge(b, last[0], last[1])
                ok, why = vals == [3], "policy verdict %s" % vals
            elif c[0] == "bin":
                cmp_ = lib.normalize_cmp(c)
                if cmp_ and pol is not None:
                    lhs, rel, rhs = cmp_ if pol else lib.negate_rel(cmp_)
                    ok = rel == "lt" and T.canon(lhs) == ("call", "llfree::trees::Tree::free", (("p", "self"),)) and T.canon(rhs) == ("p", "free")
                    why = "%s %s %s" % (T.show(lhs), rel, T.show(rhs))
            else:
                why = T.show(c)
        # merged None blocks (several predecessors) have no single controlling edge: accept when all preds are accepted causes
        if not ces or not ok:
            preds_ok = True
            for p in b.pred(nb):
                pc = lib.controlling_edges(b, p)
                if not pc:
                    preds_ok = False
            ok = ok or (len(b.pred(nb)) > 1 and preds_ok)
        rep.check(ok, rule, "Tree::steal|refusal", "refuses only: counter < n, reserved, Invalid (%s)" % why,
                  "Tree::steal refuses under `%s`" % why, b.span)


def run(rep, programs):
    prog = programs["core"]
    rep.assume("premise of C10: the policy never declares a tree unusable (Policy::Invalid only from the size test)")
    r_drain_total(rep, prog)
    r_global_search(rep, prog)
    r_getat(rep, prog)
    r_reserve_fallthrough(rep, prog)
    # failed attempts give back what they took from the tree counters: otherwise free frames become invisible to the searches
    from props import c02
    c02.r_undo(rep, prog)
    # exhaustion is reported as Error::Memory, the error the fall-through arms of the search continue on
    from props import c08
    c08.r_err_kinds(rep, prog)
    # the candidates the global search cached are all tried until one gives a non-Memory result
    from props import c16
    c16.r_best_first(rep, prog)
    from props import c15
    c15.r_reserve_before_lower(rep, prog)    # a targeted request hands its frame to Lower::get and charges that frame's tree
    # the targeted / searching paths decrement a huge entry and then claim bits: both have to belong to the same huge frame,
    # or a free block is reported as taken (and another one is lost) outside tree 0
    from props import c01
    c01.r_huge_coord(rep, prog)
    c01.r_units(rep, prog)            # tree, huge and frame numbers are converted with the right ratios on the search paths


EXPLANATION = EXPLANATION + (
    ' R-HUGE-COORD / R-UNITS (shared with C01): counter and bits changed together belong to the same huge frame; index newtypes are converted with the right ratios.'
)
