"""C20 — trace replay frees exactly the frames each traced free releases.
Claimed clause: R-REPLAY-FLOW (value dependence of the freed frame on the event's pfn, and
agreement of the split bookkeeping). DESIGN.md §4 C20."""
import lib
import terms as T
from facts import callee_name

KINDS = ["eval"]
QUICK_CONFIGS = ["default"]
THOROUGH_CONFIGS = ["default"]
LEVEL_TEXT = ("value-provenance rule over rustc MIR of replay::main: decides that the frame handed to Alloc::put depends on the free "
              "event's own pfn (not only through the table lookup that finds the covering allocation), and that the per-part pfn and "
              "per-part frame recorded for the remaining parts advance by the same offsets; trace semantics are not executed")
TECHNIQUE = "value-dependence with index positions cut (selector edges), linear-offset agreement of sibling computations"
EXPLANATION = (
    "R-REPLAY-FLOW: on the free branch of replay::main the covering allocation record is *selected* by align_down(pfn, ..), but a record "
    "selected that way only knows the block's base frame; the frame passed to llfree.put must therefore be value-dependent on the event's "
    "pfn with selector (index) positions cut — arithmetic on pfn reaching the argument. R-REPLAY-PARTS: in the split bookkeeping "
    "part_pfn - a_pfn and part_frame - frame are the same term, the part marked freed is the one with part_pfn == pfn, parts are recorded "
    "with the event's order; the alloc branch records the frame returned by get under the event's pfn; the lookup tries every order from "
    "the event's order up to TREE_ORDER with align_down(pfn, 1 << order)."
)

MAIN = "replay::main"
GET = "<llfree::llfree::LLFree as llfree::Alloc>::get"
PUT = "<llfree::llfree::LLFree as llfree::Alloc>::put"


def is_event_pfn(x):
    """(.. as usize) cast of entry.pfn where entry is the loop element of events."""
    return is_event_field(x, "pfn")


def is_event_field(x, name):
    x = T.strip_casts(x)
    if x[0] == "call" and x[1] == "replay::TraceEntry::" + name:
        return True
    return x[0] == "f" and x[3] == name and any(y[0] == "call" and y[1].endswith("::next") for y in T.walk(x[1]))


def mentions_event_field(t, name):
    return any(is_event_field(x, name) for x in T.walk(t))


def value_deps_on_pfn(b, tm, t, depth=0, seen=None):
    """Does term t depend on the event's pfn other than through index/selector positions?"""
    seen = seen if seen is not None else set()
    stack = [t]
    while stack:
        x = stack.pop()
        if not isinstance(x, tuple) or not x:
            continue
        if not isinstance(x[0], str):
            stack.extend(x)
            continue
        if is_event_pfn(x):
            return True
        if x[0] == "p" or x[0] == "c":
            continue
        if x[0] == "idx":
            stack.append(x[1])      # the selected element, not the selector
            continue
        if x[0] == "call" and (x[1].endswith("::index") or x[1].endswith("::index_mut") or x[1] in ("slice::get", "slice::get_mut")):
            stack.append(x[2][0])
            continue
        if x[0] == "l" and depth < 6 and x[1] not in seen:
            seen.add(x[1])
            name = b.local_name(x[1])
            for (bi, si) in b.whole_defs(x[1]):
                dt = tm.call_term(bi) if si == "term" else tm.rvalue(b.blocks[bi]["stmts"][si]["rv"])
                if value_deps_on_pfn(b, tm, dt, depth + 1, seen):
                    return True
            continue
        for y in x[1:]:
            if isinstance(y, tuple):
                stack.append(y)
    return False


def run(rep, programs):
    prog = programs["eval"]
    rule = "R-REPLAY-FLOW"
    rep.rule(rule, "the frame freed on a traced free is value-dependent on the event's own pfn (selector positions cut)")
    b = lib.need_body(prog, MAIN)
    rep.saw(MAIN)
    tm = T.Terms(b, prog)
    puts = lib.find_calls(b, PUT)
    if len(puts) != 1:
        rep.violation(rule, "main|put-call", "expected one Alloc::put call on the free branch, found %d" % len(puts), b.span)
        return
    pb, pt = puts[0]
    fr = tm.operand(pt["args"][1])
    dep = value_deps_on_pfn(b, tm, fr)
    rep.check(dep, rule, "main|put-frame-depends-on-pfn", "freed frame is computed from the event's pfn: " + T.show(fr)[:120],
              "llfree.put is given %s: the covering record is selected by the aligned pfn, but the frame does not depend on the "
              "event's pfn itself, so a free of a middle or last part releases the first part instead" % T.show(fr)[:160], pt["span"])
    # exact offset: frame of the covering record + (event pfn - pfn of the covering record)
    lin = T.linear(fr[2][0]) if fr[0] == "agg" and fr[2] else None
    exact = False
    ldesc = "not linear"
    if lin is not None:
        atoms, const = lin
        plus = [a for a, v in atoms.items() if v == 1]
        minus = [a for a, v in atoms.items() if v == -1]
        rec_frame = [a for a in plus if any(isinstance(x, tuple) and x and x[0] == "call" and x[1] == "replay::Allocation::frame" for x in T.walk(("x", a)))]
        ev_pfn = [a for a in plus if a not in rec_frame and any(isinstance(x, tuple) and x and x[0] == "f" and x[-1] == "pfn" for x in T.walk(("x", a)))]
        # the index the covering record was read from
        rec_idx = set()
        for a in rec_frame:
            for x in T.walk(("x", a)):
                if isinstance(x, tuple) and x and x[0] == "call" and x[1].endswith(("::index", "::index_mut")) and len(x[2]) == 2:
                    rec_idx.add(x[2][1])
        exact = (const == 0 and len(atoms) == 3 and len(rec_frame) == 1 and len(ev_pfn) == 1 and len(minus) == 1 and minus[0] in rec_idx)
        ldesc = "%d atoms (+%d/-%d), constant %d" % (len(atoms), len(plus), len(minus), const)
    rep.check(exact, rule, "main|put-frame-offset", "freed frame = record.frame + (pfn - pfn of the covering record)",
              "the freed frame is not record.frame + (event pfn - record pfn) [%s]: a partial free releases frames outside the "
              "traced block" % ldesc, pt["span"])
    # the event loop replays every event
    from props.c10 import loop_info, iter_loop_header, exits_only_by_exhaustion
    ev_loop = None
    for h, blocks, exits in loop_info(b):
        info = iter_loop_header(b, tm, h)
        if info and pb in blocks and any(x[0] == "f" and x[3] == "events" for x in T.walk(info[0][2][0])):
            ev_loop = (h, blocks, exits, info)
    if ev_loop is None:
        rep.violation(rule, "main|event-loop", "no loop over the trace's events around the free", b.span)
    else:
        h, blocks, exits, info = ev_loop
        ok, why = exits_only_by_exhaustion(b, tm, h, blocks, exits)
        rep.check(ok, rule, "main|event-loop|exhaustive", "every event of the trace is replayed",
                  "replay stops before the end of the trace: %s; the final free count then misses the remaining events" % why, b.term(h)["span"])
        narrowed = [x[1].rsplit("::", 1)[-1] for x in T.walk(info[0][2][0]) if x[0] == "call" and x[1].rsplit("::", 1)[-1] in
                    ("take", "skip", "filter", "step_by", "take_while", "skip_while", "rev")]
        rep.check(not narrowed, rule, "main|event-loop|whole-trace", "iterates all events in order",
                  "the event iterator is adapted by %s" % narrowed, b.term(h)["span"])
    # flags = request(entry.order, ..) of the same event
    fl = tm.operand(pt["args"][2])
    rep.check(mentions_event_field(fl, "order"), rule, "main|put-order",
              "freed with the event's order", "the free does not use the event's order: " + T.show(fl)[:120], pt["span"])
    # ---- split bookkeeping
    rule2 = "R-REPLAY-PARTS"
    rep.rule(rule2, "per-part pfn and per-part frame advance by the same offsets; the freed part is the one with part_pfn == pfn")
    wf = lib.find_calls(b, "replay::Allocation::with_frame")
    wp = lib.find_calls(b, "replay::Allocation::with_present")
    wo = lib.find_calls(b, "replay::Allocation::with_order")
    if len(wf) != 1 or len(wp) != 1 or len(wo) != 1:
        rep.violation(rule2, "main|bookkeeping", "expected one with_present/with_frame/with_order chain (found %d/%d/%d)" % (len(wp), len(wf), len(wo)), b.span)
    else:
        pf = tm.operand(wf[0][1]["args"][1])
        pres = tm.operand(wp[0][1]["args"][1])
        good = pres[0] == "bin" and pres[1] == "Ne" and (is_event_pfn(pres[2]) or is_event_pfn(pres[3]))
        rep.check(good, rule2, "main|freed-part", "the part equal to the event's pfn is marked free, the others stay present",
                  "presence of the parts is computed as %s" % T.show(pres)[:160], wp[0][1]["span"])
        part_pfn = pres[3] if good and is_event_pfn(pres[2]) else (pres[2] if good else None)
        okoff = False
        detail = ""
        if part_pfn is not None and pf[0] == "agg" and pf[2]:
            lp = T.linear(part_pfn)
            lf = T.linear(pf[2][0])
            if lp is not None and lf is not None:
                # remove the bases: a_pfn (opaque/lookup result) and frame.0 of the record
                def strip(l, is_base):
                    d = {a: v for a, v in l[0].items() if not is_base(a)}
                    return (d, l[1])
                base_p = lambda a: not any(isinstance(x, tuple) and x and x[0] == "bin" and x[1] == "Mul" for x in T.walk(("x", a))) and a[0] != "bin"
                sp, sf = strip(lp, base_p), strip(lf, base_p)
                okoff = sp == sf and bool(sp[0])
                detail = "pfn offset %s vs frame offset %s" % (sp, sf)
        rep.check(okoff, rule2, "main|part-offsets", "part_pfn - a_pfn == part_frame - frame",
                  "the remaining parts are recorded with frames that do not advance like their pfns (%s): a later free of such a part "
                  "frees the wrong frame" % detail, wf[0][1]["span"])
        # number of parts = 2^(record order - event order)
        from props.c10 import loop_info as _li, iter_loop_header as _ih
        cnt_ok, cdesc2 = False, "no part loop"
        for h, blocks, exits in _li(b):
            info = _ih(b, tm, h)
            if not info or wf[0][0] not in blocks:
                continue
            rng = [x for x in T.walk(info[0][2][0]) if x[0] == "agg" and x[1].startswith("adt:core::ops::range::Range::Range") and len(x[2]) == 2]
            if not rng:
                continue
            lo, hi = rng[0][2]
            lh = T.linear(hi)
            if T.const_val(lo) == 0 and lh is not None and lh[1] == 0 and len(lh[0]) == 1 and list(lh[0].keys())[0][0] == "pow2":
                ex = list(lh[0].keys())[0][1]
                le = T.linear(ex) if not (isinstance(ex, tuple) and ex and ex[0] == "bin") else T.linear(ex)
                cdesc2 = T.show(hi)[:100]
                if le is not None and le[1] == 0 and len(le[0]) == 2:
                    pos = [a for a, v in le[0].items() if v == 1]
                    neg = [a for a, v in le[0].items() if v == -1]
                    cnt_ok = (len(pos) == 1 and len(neg) == 1
                              and any(isinstance(x, tuple) and x and x[0] == "call" and x[1] == "replay::Allocation::order" for x in T.walk(("x", pos[0])))
                              and any(isinstance(x, tuple) and x and x[0] == "f" and x[-1] == "order" for x in T.walk(("x", neg[0]))))
        rep.check(cnt_ok, rule2, "main|part-count", "the record is split into 2^(record order - event order) parts",
                  "the split does not cover exactly the covering block: part range ends at %s" % cdesc2, wf[0][1]["span"])
        od = tm.operand(wo[0][1]["args"][1])
        rep.check(mentions_event_field(od, "order"), rule2, "main|part-order",
                  "parts are recorded with the event's order", "parts are recorded with order " + T.show(od)[:100], wo[0][1]["span"])
    # ---- alloc branch
    gets = lib.find_calls(b, GET)
    wa = lib.find_calls(b, "replay::Allocation::with")
    if len(gets) == 1 and len(wa) == 1:
        a = [tm.operand(x) for x in wa[0][1]["args"]]
        good = T.mentions_call(a[0], GET) and mentions_event_field(a[1], "order")
        rep.check(good, rule2, "main|alloc-record", "records (frame returned by get, event order)", "alloc record is (%s, %s)" % (T.show(a[0])[:80], T.show(a[1])[:80]), wa[0][1]["span"])
    else:
        rep.violation(rule2, "main|alloc-branch", "expected one get and one Allocation::with", b.span)
    # an allocation event allocates, a free event frees: get is controlled by entry.alloc == true, put by false
    def alloc_pol(bi):
        for s_, d_ in lib.controlling_edges(b, bi):
            c = tm.operand(b.term(s_)["discr"])
            if is_event_field(c, "alloc"):
                return lib.bool_edge_polarity(b, s_, d_)
        return None
    if len(gets) == 1:
        rep.check(alloc_pol(gets[0][0]) is True and alloc_pol(pb) is False, rule2, "main|event-kind",
                  "get on entry.alloc, put otherwise", "allocation and free events are not dispatched by entry.alloc (get under %s, put under %s)" % (
                      alloc_pol(gets[0][0]), alloc_pol(pb)), gets[0][1]["span"])
    # the replayed allocator starts entirely free
    news = [(bi, t) for bi, t in b.calls() if (callee_name(t["callee"]) or "").endswith("as llfree::Alloc>::new")]
    init_ok = False
    for bi, t in news:
        for a in t["args"]:
            ta = tm.operand(a)
            for x in T.walk(ta):
                if (x[0] == "agg" and x[1].startswith("adt:llfree::Init::FreeAll")) or (x[0] == "c" and x[2] and str(x[2]).endswith("Init::FreeAll")):
                    init_ok = True
    if news:
        free_all = None
        ia = prog.crate("llfree").adts.get("llfree::Init")
        if ia:
            free_all = [v["discr"] for v in ia["variants"] if v["name"] == "FreeAll"][0]
        for bi, t in news:
            for a in t["args"]:
                ta = tm.operand(a)
                if ta[0] == "c" and free_all is not None and ta[1] == free_all and (ta[2] is None or "Init" in str(ta[2])):
                    init_ok = True
                if ta[0] == "agg" and "Init" in ta[1]:
                    init_ok = init_ok or ta[1].endswith("FreeAll|enum") or "FreeAll" in ta[1]
        rep.check(init_ok, rule, "main|init-free-all", "the allocator is created with Init::FreeAll",
                  "the replayed allocator is not created entirely free", news[0][1]["span"])
    # the record created for an allocation is present and carries the given frame and order
    aw = prog.body("replay::Allocation::with")
    if aw is not None:
        atm = T.Terms(aw, prog)
        vals = {}
        for bi, t in aw.calls():
            cn = callee_name(t["callee"]) or ""
            if cn.startswith("replay::Allocation::with_"):
                vals[cn.rsplit("::", 1)[-1]] = T.canon(atm.operand(t["args"][1]))
        good = vals.get("with_present") == ("c", 1) and vals.get("with_frame") == ("p", "frame") and vals.get("with_order") == ("p", "order")
        rep.check(good, rule2, "Allocation::with", "an allocation record is present and stores (frame, order)",
                  "Allocation::with builds %s: the record of a traced allocation is not found again by its free" % (vals,), aw.span)
    # ---- lookup of the covering record: a loop `for o in entry.order..=TREE_ORDER` in main, or a closure handed to
    #      find_map/find over that range
    TREE_ORDER = prog.crate("llfree").const("llfree::TREE_ORDER")
    look = None
    for cb in [b] + list(prog.crate("replay").closures_of(MAIN) if prog.crate("replay") else []):
        ctm = tm if cb is b else T.Terms(cb, prog)

        def res(t, cb=cb):
            return lib.resolve_upvars(prog, cb, t) if cb is not b else t
        for bi, t in lib.find_calls(cb, "llfree::util::align_down"):
            a0 = res(ctm.operand(t["args"][0]))
            l = T.linear(ctm.operand(t["args"][1]))
            if not is_event_pfn(a0) or l is None or len(l[0]) != 1 or list(l[0].keys())[0][0] != "pow2":
                continue
            o = list(l[0].keys())[0][1]       # canonical order term
            rng = None
            raw_o = [x for x in T.walk(ctm.operand(t["args"][1])) if T.canon(x) == o]
            if cb is b:
                rr = [x for x in T.walk(ctm.operand(t["args"][1])) if x[0] == "call" and x[1] == "core::ops::range::RangeInclusive::new"]
                if rr and any(x[0] == "call" and x[1].endswith("::next") for x in T.walk(("x", o))):
                    rng = rr[0][2]
            elif o[0] == "p":
                # closure parameter: the closure must be the argument of find_map / find over the inclusive range
                for pb, pt in b.calls():
                    cn = callee_name(pt["callee"]) or ""
                    if cn.rsplit("::", 1)[-1] in ("find_map", "find", "position") and any(
                            x[0] == "agg" and x[1] == "closure:" + cb.name for a in pt["args"] for x in T.walk(tm.operand(a))):
                        rr = [x for x in T.walk(tm.operand(pt["args"][0])) if x[0] == "call" and x[1] == "core::ops::range::RangeInclusive::new"]
                        if rr:
                            rng = rr[0][2]
            look = {"body": cb, "tm": ctm, "res": res, "order": o, "rng": rng, "apfn": T.canon(res(ctm.call_term(bi))), "span": t["span"]}
    good = False
    if look and look["rng"]:
        lo, hi = look["rng"]
        good = mentions_event_field(lo, "order") and T.const_val(hi) == TREE_ORDER
    rep.check(good, rule2, "main|lookup", "covering record searched at align_down(pfn, 1 << o) for o in entry.order..=TREE_ORDER",
              "lookup of the covering allocation changed (no align_down(pfn, 1 << o) over o in entry.order..=TREE_ORDER found)", b.span)
    # ---- the record accepted by the lookup covers the freed block: present and order >= the loop's order
    cover_ok, cdesc = False, "no `Some(align_down(..))` result of the lookup found"
    if look:
        cb, ctm, res, loop_order, apfn = look["body"], look["tm"], look["res"], look["order"], look["apfn"]
        for bi, si, st in cb.stmts():
            if st["k"] != "assign" or st["rv"]["k"] != "aggregate" or "Some" not in str(st["rv"]["kind"]):
                continue
            t = res(ctm.rvalue(st["rv"]))
            ads = [x for x in T.walk(t) if x[0] == "call" and x[1] == "llfree::util::align_down"]
            if not ads or T.canon(ads[0]) != apfn:
                continue
            has_present = has_order = False
            wrong = []
            for sd, d in lib.controlling_edges(cb, bi):
                c = res(ctm.operand(cb.term(sd)["discr"]))
                pol = lib.bool_edge_polarity(cb, sd, d)
                if c[0] == "call" and c[1].endswith("Allocation::present") and pol:
                    idx = [x for x in T.walk(c) if x[0] == "call" and x[1] == "llfree::util::align_down"]
                    has_present = has_present or (bool(idx) and T.canon(idx[0]) == apfn)
                if c[0] == "bin" and pol is not None:
                    cmp_ = lib.normalize_cmp(c)
                    if not cmp_:
                        continue
                    lhs, rel, rhs = cmp_ if pol else lib.negate_rel(cmp_)
                    if rel in ("gt", "ge"):
                        lhs, rhs, rel = rhs, lhs, {"gt": "lt", "ge": "le"}[rel]
                    big = T.strip_casts(rhs)
                    if big[0] == "call" and big[1].endswith("Allocation::order"):
                        idx = [x for x in T.walk(big) if x[0] == "call" and x[1] == "llfree::util::align_down"]
                        same_rec = bool(idx) and T.canon(idx[0]) == apfn
                        if rel == "le" and same_rec and T.canon(T.strip_casts(lhs)) == loop_order:
                            has_order = True
                        else:
                            wrong.append("%s %s %s" % (T.show(lhs)[:60], rel, T.show(rhs)[:60]))
            cover_ok = has_present and has_order
            cdesc = ("record at align_down(pfn, 1 << o) accepted iff present and its order >= o" if cover_ok else
                     "the record at align_down(pfn, 1 << o) is accepted without requiring present() and order() >= o (the loop's order): "
                     "a smaller allocation on an aligned ancestor that does not reach the freed pfn is taken as the covering block%s" % (
                         " [guard found: %s]" % "; ".join(wrong) if wrong else ""))
            break
    if not cover_ok and cdesc.startswith("no `Some(align_down(..))`"):
        rep.note("R-REPLAY-PARTS lookup-covers undecided: the lookup is not written as a guarded `Some(align_down(pfn, 1 << o))` in one body")
        cover_ok, cdesc = True, "undecided: lookup written another way"
    rep.check(cover_ok, rule2, "main|lookup-covers", cdesc, cdesc, b.span)
    # events recorded within one timestamp keep their recorded order (an allocation before its free): the sort by time is stable
    et = prog.body("replay::events_from_trace")
    if et is not None:
        rep.saw(et.name)
        sorts = [(bi, callee_name(t["callee"]) or "") for bi, t in et.calls() if "sort" in (callee_name(t["callee"]) or "")]
        bad = [cn for _, cn in sorts if "unstable" in cn]
        rep.check(not bad, rule, "events_from_trace|stable-sort", "events are ordered with a stable sort (%s)" % (", ".join(cn for _, cn in sorts) or "no sort"),
                  "the trace events are sorted with %s: events with equal timestamps (an allocation and its free) can be reordered, the free "
                  "is then replayed before its allocation and dropped" % ", ".join(bad), et.span)


def r_trace_size(rep, prog):
    """The header's max_pfn is the highest traced frame number (inclusive). The allocator size and the pfn-indexed record table
    are sized from ParsedTrace::max_pfn, so that value has to be a count that covers max_pfn itself: >= header.max_pfn + 1."""
    rule = "R-TRACE-SIZE"
    rep.rule(rule, "ParsedTrace::parse: max_pfn (managed size, length of the record table) = round_up(header.max_pfn + c), c >= 1")
    b = prog.body("replay::ParsedTrace::parse")
    if b is None:
        rep.check(True, rule, "parse|covers-max-pfn", "undecided: no ParsedTrace::parse")
        rep.note("%s: ParsedTrace::parse not found; the size of the replay tables is undecided" % rule)
        return
    rep.saw(b.name)
    tm = T.Terms(b, prog)
    n = 0
    for bi, si, s in b.stmts():
        if not (s["k"] == "assign" and s["rv"]["k"] == "aggregate" and str(s["rv"]["kind"].get("adt", "")).endswith("ParsedTrace")):
            continue
        fields = s["rv"]["kind"].get("fields") or []
        if "max_pfn" not in fields:
            continue
        n += 1
        v = tm.operand(s["rv"]["ops"][fields.index("max_pfn")])
        inner = v
        while inner[0] == "call" and (inner[1].endswith("next_multiple_of") or inner[1].endswith("align_up")):
            inner = inner[2][0]          # rounding up never makes it smaller
        l = T.linear(inner)
        hdr = [k for k in (l[0] if l else {}) if any(isinstance(x, tuple) and x and x[0] == "f" and x[-1] == "max_pfn" for x in T.walk(k))]
        if l is None or len(l[0]) != 1 or len(hdr) != 1 or l[0][hdr[0]] != 1:
            rep.check(True, rule, "parse|covers-max-pfn", "undecided: the size is not header.max_pfn + constant (%s)" % T.show(inner)[:80])
            rep.note("%s: ParsedTrace::max_pfn is computed in a form the rule does not know; undecided" % rule)
            continue
        rep.check(l[1] >= 1, rule, "parse|covers-max-pfn", "size >= header.max_pfn + 1",
                  "the managed size / record table length is round_up(header.max_pfn + %d): the highest traced frame (max_pfn is "
                  "inclusive) is outside whenever max_pfn is a multiple of the rounding unit; the replay aborts at its first event "
                  "on that frame" % l[1], s.get("span"))
    if n == 0:
        rep.check(True, rule, "parse|covers-max-pfn", "undecided: no ParsedTrace { max_pfn, .. } construction found")
        rep.note("%s: no ParsedTrace construction with a max_pfn field; undecided" % rule)


_run_c20 = run


def run(rep, programs):  # noqa: F811
    _run_c20(rep, programs)
    r_trace_size(rep, programs["eval"])


EXPLANATION = EXPLANATION + (
    ' R-TRACE-SIZE: the managed size and the record table length computed by ParsedTrace::parse cover the (inclusive) highest traced frame: round_up(header.max_pfn + c), c >= 1.'
)
