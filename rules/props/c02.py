"""C02 — sequential calls follow the frame-ownership model.
Claimed clauses: free = lower first, then counters (R-PUT-ORDER); every failing call leaves the
allocation status unchanged (R-UNDO: the Err-return projection of the counter ledger, plus the
rollback of the multi-word claims); the single-row free/alloc guards (R-TOGGLE-GUARD) and the
free-path dispatch (R-PUT-DISPATCH). DESIGN.md §4 C02."""
import balance
import lib
import multicas
import terms as T
from facts import callee_name
from pathsens import PathSens
from props import c01

KINDS = ["core"]
LEVEL_TEXT = ("dominance + path-sensitive ledger rules over rustc MIR, for every path of the free and allocation call tree: "
              "decides that a rejected free changes no counter, that every Err return has undone its reservations and claims, "
              "and that bits are cleared only if all of them were set; equality with an abstract frame map is not decided")
TECHNIQUE = "edge dominance (success of Lower::put), counter ledger on Err paths, rollback-range rule, guard-term shape"
EXPLANATION = (
    "R-PUT-ORDER: in <LLFree as Alloc>::put every call that may write upper-level state is dominated by the success edge of "
    "Lower::put(frame, request.order). R-UNDO: on every path to an Err/None return of the allocation call tree and of "
    "Lower::get/get_at/put_small the counter ledger is zero and nothing was consumed (failed calls are undone); "
    "R-UNDO-RANGE: a failed multi-word claim rolls back exactly what it took. R-TOGGLE-GUARD: bits are cleared only under "
    "`e & mask == mask` and set only under `e & mask == 0`. R-PUT-DISPATCH: Lower::put frees through the huge-entry CAS for "
    "order >= HUGE_ORDER, splits only entries marked huge, and rejects when the counter says the block cannot be allocated. R-INIT-COVERAGE (shared with C06): free-all / allocate-all write every entry and bitfield consistently, so the first free of a frame meets the state the model assumes."
)

PUT = "<llfree::llfree::LLFree as llfree::Alloc>::put"


def r_put_order(rep, prog):
    rule = "R-PUT-ORDER"
    rep.rule(rule, "LLFree::put: counters are touched only after Lower::put(frame, request.order) succeeded")
    cg, eff = lib.analyses(prog)
    b = lib.need_body(prog, PUT)
    rep.saw(PUT)
    tm = T.Terms(b, prog)
    sites = lib.find_calls(b, "llfree::lower::Lower::put")
    if len(sites) != 1:
        rep.violation(rule, "put|lower-put-call", "expected exactly one Lower::put call, found %d" % len(sites), b.span)
        return
    lb, lt = sites[0]
    fa, oa = T.canon(tm.operand(lt["args"][1])), T.canon(tm.operand(lt["args"][2]))
    rep.check(fa == ("p", "frame") and oa == ("f", ("p", "request"), "order"), rule, "put|lower-put-args",
              "Lower::put(frame, request.order)", "Lower::put is not given (frame, request.order): (%s, %s)" % (
                  T.show(tm.operand(lt["args"][1])), T.show(tm.operand(lt["args"][2]))), lt["span"])
    ps = PathSens(b, prog)
    n = 0
    for bi, t in b.calls():
        if bi == lb:
            continue
        w = eff.call_may_write(b, t)
        if not w:
            continue
        n += 1
        name = callee_name(t["callee"])
        states = ps.states_at(bi)
        bad = [e for _, e in states if e.get(("c", lb)) != 0]
        rep.check(bool(states) and not bad, rule, "put|after-lower|%s" % name,
                  "only after Lower::put returned Ok", "%s may run although Lower::put failed or did not run: a rejected free "
                  "would still raise a free counter" % name, t["span"])
        # the amount and tree come from the same frame / request
        if name in ("llfree::local::Locals::put", "llfree::trees::Trees::put"):
            idx = 3 if name.endswith("Locals::put") else 1
            amt = 4 if name.endswith("Locals::put") else 2
            tr = tm.operand(t["args"][idx])
            am = balance.lin(tm.operand(t["args"][amt]))
            rep.check(T.mentions_param(tr, "frame") and T.mentions_call(tr, "llfree::FrameId::as_tree"), rule,
                      "put|tree-of-frame|%s" % name.split("::")[-2], "credits the tree of the freed frame",
                      "credits tree %s, not frame.as_tree()" % T.show(tr), t["span"])
            rep.check(am == {("pow2", ("f", ("p", "request"), "order")): 1}, rule, "put|amount|%s" % name.split("::")[-2],
                      "credits 2^order frames", "credits %s instead of 2^request.order" % balance.show_held(am or {}), t["span"])
    rep.floor(rule, "counter updates in put", n, 2)
    for rn in ps.return_nodes():
        env = ps.term_env_of(rn)
        if env.get(("c", lb)) == 1:
            rep.check(ps.ret_discr(rn) == 1, rule, "put|lower-fail-returns-err", "a failed Lower::put is reported",
                      "Lower::put failed but put does not return Err", lt["span"])


def r_undo(rep, prog):
    rule = "R-UNDO"
    rep.rule(rule, "Err/None returns: every reservation made by the failing call has been given back, nothing was consumed")
    n = 0
    for fn in balance.UPPER_FNS:
        if fn.endswith("drain::{closure#0}"):
            continue
        n += balance.check_function(rep, prog, rule, fn, balance.upper_effect, only="err")
    for fn in balance.LOWER_FNS:
        n += balance.check_function(rep, prog, rule, fn, lambda b, tm, bi, t: balance.lower_effect(b, tm, bi, t, prog), only="err")
    rep.floor(rule, "failing return states", n, 10)


def r_put_dispatch(rep, prog):
    rule = "R-PUT-DISPATCH"
    rep.rule(rule, "Lower::put: order >= HUGE_ORDER -> compare_exchange_all(huge -> LEN free); below: partial_put_huge iff the entry "
                   "is marked huge, put_small iff free <= LEN - 2^order, otherwise Err")
    fn = "llfree::lower::Lower::put"
    b = lib.need_body(prog, fn)
    rep.saw(fn)
    tm = T.Terms(b, prog)
    ps = PathSens(b, prog)
    # huge path
    ce = lib.find_calls(b, "<slice as llfree::atomic::AtomicSlice>::compare_exchange_all")
    rep.check(len(ce) == 1, rule, "put|huge-cas", "one compare_exchange_all", "expected one compare_exchange_all, found %d" % len(ce), b.span)
    for bi, t in ce:
        cur, new = T.canon(tm.operand(t["args"][1])), T.canon(tm.operand(t["args"][2]))
        rep.check(cur[0] == "call" and cur[1].endswith("HugeEntry::new_huge") and new[0] == "call" and new[1].endswith("HugeEntry::new_with")
                  and T.const_val(tm.operand(t["args"][2])[2][0]) == prog.crate("llfree").const("llfree::bitfield::Bitfield::LEN"),
                  rule, "put|huge-cas-args", "frees whole huge frames: huge marker -> LEN free",
                  "huge free does not exchange (huge marker -> LEN free): (%s -> %s)" % (T.show(tm.operand(t["args"][1])), T.show(tm.operand(t["args"][2]))), t["span"])
        # the slice covers 2^(order - HUGE_ORDER) entries from the frame's child index
        sl = tm.operand(t["args"][0])
        rng = [x for x in T.walk(sl) if x[0] == "agg" and x[1].startswith("adt:core::ops::range::Range::Range")]
        good = False
        if rng:
            lo, hi = rng[0][2]
            d = T._lin_add(T.linear(hi), T.linear(lo), -1)
            good = d is not None and d[1] == 0 and len(d[0]) == 1 and list(d[0].keys())[0][0] == "pow2" and T.mentions_param(lo, "frame")
        rep.check(good, rule, "put|huge-cas-range", "entries [child_idx, child_idx + 2^(order-HUGE_ORDER))",
                  "huge free covers an unexpected entry range: " + T.show(sl), t["span"])
        for rn in ps.return_nodes():
            env = ps.term_env_of(rn)
            if env.get(("c", bi)) == 1:
                rep.check(ps.ret_discr(rn) == 1, rule, "put|huge-cas-fail-err", "a failed huge free returns Err",
                          "compare_exchange_all failed but put does not return Err", t["span"])
    # small path
    for callee, cond in (("llfree::lower::Lower::partial_put_huge", "huge"), ("llfree::lower::Lower::put_small", "counter")):
        sites = lib.find_calls(b, callee)
        if len(sites) != 1:
            rep.violation(rule, "put|%s-call" % callee.split("::")[-1], "expected one call to %s" % callee, b.span)
            continue
        bi, t = sites[0]
        ces = lib.controlling_edges(b, bi)
        conds = [(tm.operand(b.term(s)["discr"]), lib.bool_edge_polarity(b, s, d)) for s, d in ces]
        if cond == "huge":
            good = any(c[0] == "call" and c[1] == "llfree::lower::HugeEntry::huge" and pol is True for c, pol in conds)
            rep.check(good, rule, "put|split-only-huge", "partial_put_huge only if the loaded entry is marked huge",
                      "partial_put_huge is not guarded by old.huge()", t["span"])
        else:
            good = False
            detail = ""
            for c, pol in conds:
                cmp_ = lib.normalize_cmp(c) if c[0] == "bin" else None
                if cmp_ is None or pol is None:
                    continue
                lhs, rel, rhs = cmp_ if pol else lib.negate_rel(cmp_)
                if rel not in ("le", "lt"):
                    continue
                d = T._lin_add(T.linear(rhs), T.linear(lhs), -1)
                if d is None:
                    continue
                atoms, const = d
                if rel == "lt":
                    const -= 1
                LEN = prog.crate("llfree").const("llfree::bitfield::Bitfield::LEN")
                frees = [a for a, v in atoms.items() if a[0] == "call" and a[1].endswith("HugeEntry::free") and v == -1]
                pows = [a for a, v in atoms.items() if a[0] == "pow2" and v == -1]
                if frees and pows and len(atoms) == 2:
                    good = const == LEN
                    detail = "free + 2^order <= %d (LEN = %d)" % (const, LEN)
            rep.check(good, rule, "put|small-guard", "put_small only if old.free() <= LEN - 2^order: " + detail,
                      "put_small is not guarded by old.free() <= LEN - 2^order (%s)" % detail, t["span"])
        # both receive (frame, order)
        args = [T.canon(tm.operand(a)) for a in t["args"]]
        rep.check(("p", "frame") in args and ("p", "order") in args, rule, "put|%s-args" % callee.split("::")[-1],
                  "forwards frame and order", "frame/order not forwarded to %s" % callee, t["span"])
    # put_small: bits first (toggle expected=true), then counter
    fn = "llfree::lower::Lower::put_small"
    b = lib.need_body(prog, fn)
    rep.saw(fn)
    tm = T.Terms(b, prog)
    ps = PathSens(b, prog)
    tg = lib.find_calls(b, "llfree::bitfield::Bitfield::toggle")
    up = lib.find_calls(b, "llfree::atomic::Atom::try_update")
    if len(tg) == 1 and len(up) == 1:
        tb, tt = tg[0]
        ub, ut = up[0]
        a = [tm.operand(x) for x in tt["args"]]
        rep.check(T.canon(a[1]) == ("p", "frame") and T.canon(a[2]) == ("p", "order") and T.const_val(a[3]) == 1, rule,
                  "put_small|toggle-args", "toggle(frame, order, expected = true)",
                  "put_small toggles (%s, %s, %s)" % (T.show(a[1]), T.show(a[2]), T.show(a[3])), tt["span"])
        bf = a[0]
        okbf = T.mentions_call(bf, "llfree::FrameId::as_huge") and T.mentions_param(bf, "frame")
        if not okbf:
            # the same huge frame number spelled differently (frame.0 / HUGE_FRAMES, ...)
            sel = [x for x in T.walk(bf) if x[0] == "call" and x[1] == "llfree::lower::Lower::bitfield"]
            fp = [x for x in T.walk(a[1]) if x[0] == "p"]
            okbf = bool(sel) and bool(fp) and lib.index_eq(prog, sel[0][2][1], ("call", "llfree::FrameId::as_huge", (fp[0],), None))
        rep.check(okbf, rule, "put_small|bitfield-of-frame",
                  "bitfield of the frame's huge frame", "put_small toggles the bitfield %s" % T.show(bf), tt["span"])
        states = ps.states_at(ub)
        bad = [e for _, e in states if e.get(("c", tb)) != 0]
        rep.check(bool(states) and not bad, rule, "put_small|bits-before-counter", "counter is raised only after the bits were cleared",
                  "the huge-entry counter is raised although the bit toggle failed or did not run", ut["span"])
        for rn in ps.return_nodes():
            env = ps.term_env_of(rn)
            if env.get(("c", tb)) == 1:
                rep.check(ps.ret_discr(rn) == 1, rule, "put_small|toggle-fail-err", "failed toggle returns Err",
                          "toggle failed (frames not allocated) but put_small does not return Err", tt["span"])
    else:
        rep.violation(rule, "put_small|shape", "expected one toggle and one try_update in put_small", b.span)


def run(rep, programs):
    prog = programs["core"]
    r_put_order(rep, prog)
    r_undo(rep, prog)
    multicas.check_undo_range(rep, prog, "R-UNDO-RANGE", lib.need_body)
    c01.r_toggle_guard(rep, prog)
    r_put_dispatch(rep, prog)
    # the ownership model starts from the initial state: free-all / allocate-all mark every frame consistently in entries and bitfields
    from props import c06
    c06.r_init_coverage(rep, prog)
    c01.r_toggle_dispatch(rep, prog)
    from props import c03
    c03.r_split_order(rep, prog)      # a partial free of a whole huge frame splits exactly that huge frame
    from props import c15
    c15.r_reserve_before_lower(rep, prog)    # a targeted request hands its frame to Lower::get and charges that frame's tree
    c01.r_huge_coord(rep, prog)       # counter and bits that are changed together belong to the same huge frame
    c01.r_units(rep, prog)            # no tree / huge / row number is used where a frame number is meant (and vice versa)
    # a free or targeted allocation of a block that is not entirely inside the managed range must be rejected before it changes anything
    from props import c08
    c08.r_check_dom(rep, prog)
    c08.r_check_guards(rep, prog)


EXPLANATION = EXPLANATION + (
    ' R-CHECK-DOM / R-CHECK-GUARDS (shared with C08): a block that is not entirely inside the managed range is rejected before anything changes.'
)
