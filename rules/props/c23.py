"""C23 — row bit search returns the lowest aligned free block and sets exactly it.
Claimed clause: R-ROWMASK (known-bits of the candidate positions and of the bits added) and
R-ROWTRICK-SIBLINGS (the three arms using the zero-in-word idiom agree). DESIGN.md §4 C23."""
import cfg
import lib
import terms as T
from facts import callee_name

KINDS = ["core"]
LEVEL_TEXT = ("known-bits / literal analysis of the seven arms of first_zeros_aligned in rustc MIR: decides that a success adds exactly a "
              "contiguous 2^order-bit block at the reported offset, that the offset is drawn from exactly the aligned in-row positions, "
              "and that the arms sharing the zero-in-word idiom are instances of one expression; that the idiom finds the lowest free "
              "lane (the borrow argument) is not decided (needs a solver or exhaustive evaluation)")
TECHNIQUE = "literal/known-bits checks per match arm + sibling agreement of expression skeletons (deviant-arm detection)"
EXPLANATION = (
    "R-ROWMASK, per arm k of `match order`: the returned row is v | (C << off) with C = 2^(2^k) - 1 and off the value that is also "
    "returned; off = trailing_zeros(X & M) / trailing_ones(Y | M) (k=0: trailing_ones(v)) behind the `off < 64` guard, so off lies in the "
    "candidate set P of the literal M, and P is exactly {0, 2^k, 2*2^k, ...} below 64 (aligned, in row, none missing); arms 5 and 6 test "
    "`v as u32 == 0`, `v >> 32 == 0`, `v == 0` and return the matching literal blocks. R-ROWTRICK-SIBLINGS: arms 2, 3 and 4 are the same "
    "expression skeleton with (M, shift) = (lane-LSB mask of width 2^k, 2^k - 1); an arm that deviates from its siblings is reported."
)

FN = "llfree::bitfield::first_zeros_aligned"


def skeleton(t, consts):
    """Replaces integer literals by placeholders, collecting them in order."""
    if not isinstance(t, tuple):
        return t
    if t and t[0] == "c":
        consts.append(t[1])
        return ("c", "#")
    if t and t[0] == "call":
        return ("call", t[1], tuple(skeleton(a, consts) for a in t[2]))
    return tuple(skeleton(x, consts) if isinstance(x, tuple) else x for x in t)


def run(rep, programs):
    prog = programs["core"]
    rule = "R-ROWMASK"
    rep.rule(rule, "a success ORs exactly 2^order contiguous bits at the reported, aligned, in-row offset; candidate positions are all aligned positions")
    b = lib.need_body(prog, FN)
    rep.saw(FN)
    tm = T.Terms(b, prog)
    sw = None
    for s in range(b.nblocks()):
        t = b.term(s)
        if t["k"] == "switch" and T.canon(tm.operand(t["discr"])) == ("p", "order"):
            sw = s
            break
    if sw is None:
        rep.violation(rule, "match-order", "no `match order` switch found", b.span)
        return
    targets = dict(b.term(sw)["targets"])
    rep.check(sorted(targets) == list(range(7)), rule, "arms", "arms for orders 0..6", "arms are %s" % sorted(targets), b.span)
    # exclusive regions per arm
    arm_blocks = {}
    for k, tg in targets.items():
        others = {x for kk, x in targets.items() if kk != k} | {b.term(sw)["otherwise"]}
        arm_blocks[k] = cfg.reachable_from(b, tg, stop=others)
    idiom_terms = {}
    for k in range(5):
        if k not in arm_blocks:
            continue
        blocks = arm_blocks[k]
        w = 1 << k
        key = "order%d" % k
        # the arm's result: `(off < 64).then(|| (row, off))` or the same written as if/else
        cands = []      # (guard term, row term, returned-offset term, span) in terms of the outer body
        for tb, tt in [(bi, t) for bi, t in b.calls_to("bool::then") if bi in blocks]:
            clos = [x for x in T.walk(tm.operand(tt["args"][1])) if x[0] == "agg" and x[1].startswith("closure:")]
            if not clos:
                continue
            cb = prog.body(clos[0][1][len("closure:"):])
            names = [u["name"] for u in cb.j.get("upvars", [])]
            ctm = T.Terms(cb, prog)
            for _, si, rv in lib.assignments_to_return(cb):
                if si == "term":
                    continue
                r = ctm.rvalue(rv)
                for nm, cap in zip(names, clos[0][2]):
                    r = T.subst(r, ("up", nm), T.strip_refs(cap))
                if r[0] == "agg" and len(r[2]) == 2:
                    cands.append((tm.operand(tt["args"][0]), r[2][0], r[2][1], tt["span"]))
        for bi, si, st in b.stmts():
            if bi in blocks and st["k"] == "assign" and st["rv"]["k"] == "aggregate" and st["rv"]["kind"].get("variant") == "Some":
                val = tm.operand(st["rv"]["ops"][0])
                ces = [(s_, d_) for s_, d_ in lib.controlling_edges(b, bi) if s_ in blocks]
                if val[0] == "agg" and len(val[2]) == 2 and ces:
                    s_, d_ = ces[-1]
                    g = tm.operand(b.term(s_)["discr"])
                    pol = lib.bool_edge_polarity(b, s_, d_)
                    if g[0] == "bin" and pol is not None:
                        cm = lib.normalize_cmp(g)
                        if cm and not pol:
                            cm = lib.negate_rel(cm)
                        cands.append((("cmp",) + tuple(cm) if cm else g, val[2][0], val[2][1], st["span"]))
        if len(cands) != 1:
            rep.violation(rule, key + "|then", "expected one guarded result `(row, off)` in the arm, found %d" % len(cands), b.span)
            continue
        guard, row, roff, gspan = cands[0]
        if guard[0] == "cmp":
            cmp_ = guard[1:]
        else:
            cmp_ = lib.normalize_cmp(guard) if guard[0] == "bin" else None
        off = None
        if cmp_ and cmp_[1] == "lt" and T.const_val(cmp_[2]) == 64:
            off = cmp_[0]
        elif cmp_ and cmp_[1] == "gt" and T.const_val(cmp_[0]) == 64:
            off = cmp_[2]
        rep.check(off is not None, rule, key + "|guard", "result only if off < 64", "guard is " + T.show(guard if guard[0] != "cmp" else guard[1])[:80], gspan)
        if off is None:
            continue
        tt = {"span": gspan}
        good = False
        detail = "(%s, %s)" % (T.show(row)[:80], T.show(roff)[:40])
        c = T.canon(row)
        coff = T.canon(T.strip_casts(off))
        if c[0] == "bin" and c[1] == "BitOr":
            parts = [c[2], c[3]]
            vpart = [x for x in parts if x == ("p", "v")]
            shl = [x for x in parts if x[0] == "bin" and x[1] == "Shl"]
            if vpart and shl:
                C = shl[0][2]
                o = shl[0][3]
                good = (C == ("c", (1 << w) - 1) and o == coff and T.canon(T.strip_casts(roff)) == coff)
        rep.check(good, rule, key + "|adds-block", "returns (v | (%#x << off), off) for the guarded off" % ((1 << w) - 1),
                  "arm for order %d returns %s: it does not add exactly %d contiguous bits at the reported (guarded) offset" % (k, detail, w), gspan)
        # candidate positions
        o = T.strip_casts(off)
        P = None
        if o[0] == "call" and o[1] in ("u64::trailing_zeros", "u64::trailing_ones"):
            x = o[2][0]
            if o[1].endswith("trailing_ones") and T.canon(x) == ("p", "v"):
                P = set(range(64))
            elif x[0] == "bin" and x[1] in ("BitAnd", "BitOr"):
                lits = [T.const_val(y) for y in (x[2], x[3]) if T.const_val(y) is not None]
                if len(lits) == 1:
                    M = lits[0]
                    if o[1].endswith("trailing_zeros") and x[1] == "BitAnd":
                        P = {i for i in range(64) if M >> i & 1}
                    if o[1].endswith("trailing_ones") and x[1] == "BitOr":
                        P = {i for i in range(64) if not (M >> i & 1)}
        want = set(range(0, 64, w))
        if P is None:
            rep.violation(rule, key + "|positions", "cannot determine the candidate positions of " + T.show(off)[:120], tt["span"])
        else:
            rep.check(P == want, rule, key + "|positions", "candidate offsets = multiples of %d below 64" % w,
                      "candidate offsets %s differ from the aligned in-row positions %s (misaligned/out-of-row blocks, or aligned "
                      "blocks that are never found)" % (sorted(P ^ want)[:8], "0,%d,.." % w), tt["span"])
        if k >= 2:
            idiom_terms[k] = off
    # arms 5, 6
    for k, checks in ((5, [(0xffffffff, 0), (0xffffffff << 32, 32)]), (6, [((1 << 64) - 1, 0)])):
        blocks = arm_blocks.get(k, set())
        somes = []
        for bi, si, s in b.stmts():
            if bi in blocks and s["k"] == "assign" and s["rv"]["k"] == "aggregate" and s["rv"]["kind"].get("variant") == "Some":
                somes.append((bi, tm.operand(s["rv"]["ops"][0]), s["span"]))
        for bi, t in b.calls_to("bool::then_some"):
            if bi in blocks:
                somes.append((bi, tm.operand(t["args"][1]), t["span"], tm.operand(t["args"][0])))
        found = []
        for item in somes:
            val = item[1]
            if val[0] == "agg" and len(val[2]) == 2:
                row, off = val[2]
                offv = T.const_val(off)
                # row = v | LIT  or LIT
                lit = None
                c = T.canon(row)
                if c[0] == "c":
                    lit = c[1]
                elif c[0] == "bin" and c[1] == "BitOr":
                    for x in (c[2], c[3]):
                        if x[0] == "c":
                            lit = x[1]
                        elif x[0] == "bin" and x[1] == "Shl" and x[2][0] == "c" and x[3][0] == "c":
                            lit = x[2][1] << x[3][1]
                # guard
                if len(item) == 4:
                    g = item[3]
                else:
                    ces = lib.controlling_edges(b, item[0])
                    g = tm.operand(b.term(ces[-1][0])["discr"]) if ces else ("k",)
                found.append((lit, offv, T.show(g), g))
        found_raw = found
        found = [f[:3] for f in found_raw]
        for lit, offv in checks:
            hit = [f for f in found if f[0] == lit and f[1] == offv]
            rep.check(bool(hit), rule, "order%d|block@%d" % (k, offv), "adds %#x at offset %d under guard %s" % (lit, offv, hit[0][2] if hit else "?"),
                      "order %d: no result that adds %#x at offset %d (found %s)" % (k, lit, offv, found), b.span)
        # guards test exactly the half/whole row for zero
        for lit, offv, g, graw in found_raw:
            # the guard tests exactly the bits the result adds: (v as u32) == 0 / (v >> 32) == 0 / v & LIT == 0 / v == 0
            ok = False
            if graw[0] == "bin" and graw[1] == "Eq" and 0 in (T.const_val(graw[2]), T.const_val(graw[3])):
                x = graw[3] if T.const_val(graw[2]) == 0 else graw[2]
                width = {"u8": 8, "u16": 16, "u32": 32, "u64": 64}
                if lit is not None and offv is not None:
                    nbits = bin(lit).count("1")
                    if x[0] == "cast" and x[3] == "IntToInt" and T.canon(x[1]) == ("p", "v"):
                        ok = offv == 0 and width.get(x[2]) == nbits
                    elif x[0] == "bin" and x[1] == "Shr" and T.canon(x[2]) == ("p", "v"):
                        ok = T.const_val(x[3]) == offv and offv + nbits == 64
                    elif x[0] == "bin" and x[1] == "Shl" and T.canon(x[2]) == ("p", "v"):
                        ok = offv == 0 and T.const_val(x[3]) == 64 - nbits
                    elif x[0] == "bin" and x[1] == "BitAnd" and ("p", "v") in (T.canon(x[2]), T.canon(x[3])):
                        ok = lit in (T.const_val(x[2]), T.const_val(x[3]))
                    elif T.canon(x) == ("p", "v"):
                        ok = nbits == 64 and offv == 0
            rep.check(ok, rule, "order%d|guard@%s" % (k, offv), "guarded by a zero test of exactly the block's bits: " + g[:60],
                      "order %d block at %s is guarded by `%s`, which does not test exactly the %s bits the result sets: a free block is "
                      "missed or an occupied one is handed out" % (k, offv, g[:80], bin(lit or 0).count("1")), b.span)
    # ---- siblings
    rule2 = "R-ROWTRICK-SIBLINGS"
    rep.rule(rule2, "arms 2,3,4 are the same expression skeleton with (M, shift) = (lane-LSB mask of width 2^k, 2^k - 1)")
    sk = {}
    for k, t in idiom_terms.items():
        consts = []
        sk[k] = (skeleton(T.canon(t), consts), consts)
    rep.floor(rule2, "arms using the zero-in-word idiom", len(sk), 3)
    if sk:
        from collections import Counter
        cnt = Counter(repr(s[0]) for s in sk.values())
        major = cnt.most_common(1)[0][0]
        for k, (s, consts) in sorted(sk.items()):
            w = 1 << k
            same = repr(s) == major
            rep.check(same, rule2, "order%d|skeleton" % k, "same expression as its sibling arms",
                      "the arm for order %d computes its offset with a different expression than its siblings: %s" % (k, T.show(idiom_terms[k])[:160]), b.span)
            if same:
                M = sum(1 << i for i in range(0, 64, w))
                lits = sorted(set(consts))
                rep.check(set(consts) == {M, w - 1}, rule2, "order%d|constants" % k, "M = %#x, shift = %d" % (M, w - 1),
                          "order %d: constants %s, expected lane mask %#x and shift %d" % (k, [hex(c) for c in lits], M, w - 1), b.span)
    # the row search is applied to the current row value inside one atomic update, and the reported offset is the one it returned
    from props import c01
    c01.r_return_claimed(rep, prog)
    c01.r_blind_writes(rep, prog)
