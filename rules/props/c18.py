"""C18 — no out-of-bounds access or undefined behaviour in metadata handling.
Claimed clauses: the unsafe boundary — unsafe-obligation ledger (closed world of unsafe operations, each with
structural discharge), R-LAYOUT, R-SIZE-VIEW-AGREE, R-NONATOMIC-CALLERS, compile-fail witnesses. DESIGN.md §4 C18."""
import os
import re
import subprocess

import cfg
import lib
import terms as T
from facts import callee_name, place_str

KINDS = ["core", "eval"]
LEVEL_TEXT = ("closed-world ledger of every unsafe operation in crate llfree (calls to unsafe fns, raw-pointer derefs, transmutes) in "
              "rustc MIR: each site must be a reviewed one and its length / alignment / in-bounds obligations are discharged by "
              "dominating guards, term agreement between the function that sizes a buffer and the code that views it, and layout facts "
              "from rustc's layout_of per configuration; data races, provenance and anything a sanitizer observes are not decided")
TECHNIQUE = "unsafe-site enumeration + per-site structural obligations (guard dominance, size/view term agreement, layout_of facts) + compile_fail witnesses"
EXPLANATION = (
    "UNSAFE-LEDGER: every call to an `unsafe fn`, raw-pointer deref and transmute in llfree is matched to a reviewed handler; an "
    "unreviewed unsafe operation is a violation. Handlers: from_raw_parts(_mut) in Lower::new/Trees::new/OffsetSlice (pointer, count and "
    "dominating length guard derive from the same size function and count term), ptr.add in toggle_int (index (i % LEN) / (8*size_of::<I>())), "
    "ptr.sub in MetaData::valid::overlap (needs a non-empty guard), alloc_zeroed in aligned_buf (needs size != 0 and a null check), "
    "metadata()/non_atomic (unsafe fns; callers restricted). R-SIZE-VIEW-AGREE: the element count and element type that size a buffer "
    "equal those it is viewed as. R-LAYOUT (layout_of, per configuration): strides and alignments of sizing vs viewing types agree, "
    "Atom<T> is layout-identical to T, Meta fits a Frame. R-NONATOMIC-CALLERS: non_atomic is only used by free_all/reserve_all, which "
    "only Lower::new calls. Witnesses W1-W3 (compile_fail doc tests with compiling twins)."
)

FRP = ("core::slice::raw::from_raw_parts", "core::slice::raw::from_raw_parts_mut")


def norm_ty(s):
    return s.replace("llfree::", "")


def layout(prog, name):
    L = prog.crate("llfree").layouts
    for k, v in L.items():
        if norm_ty(k) == name:
            return v
    return None


def stride(l):
    a = l["align"]
    return (l["size"] + a - 1) // a * a


def generic_arg(b, bi, idx=0):
    c = b.term(bi)["callee"]
    args = c.get("res_args") or c.get("args") or []
    args = [a for a in args if isinstance(a, str)]
    return norm_ty(args[idx]) if len(args) > idx else None


def elem_of_slice_ty(ty):
    m = re.match(r"^&(?:'[a-z_0-9]+ )?(?:mut )?\[(.*)\]$", ty.strip())
    return norm_ty(m.group(1)) if m else None


def is_fmt_noise(span):
    m = span.get("m") or []
    return any("FormatLiteral" in x or x in ("format_args", "$crate::format_args") for x in m)


def unsafe_sites(prog):
    out = []
    c = prog.crate("llfree")
    for name, b in sorted(c.bodies.items()):
        for bi, t in b.calls():
            cal = t["callee"]
            if cal.get("unsafe") and not is_fmt_noise(t["span"]):
                out.append((b, "call", callee_name(cal), bi, t["span"]))
        seen = set()
        for bi, si, s in b.stmts():
            if s["k"] != "assign":
                continue
            places = [s["place"]]
            rv = s["rv"]
            if rv["k"] in ("ref", "rawptr", "discr"):
                places.append(rv["place"])
            for o in lib.operands_of_rv(rv):
                if o["k"] in ("copy", "move"):
                    places.append(o["place"])
            for pl in places:
                if any(e["k"] == "deref" and e.get("ptr") == "raw" for e in (pl.get("p") or [])):
                    if (bi, place_str(pl)) not in seen:
                        seen.add((bi, place_str(pl)))
                        out.append((b, "rawderef", pl.get("ty") or "?", bi, s["span"]))
            if rv["k"] == "cast" and rv["kind"] == "Transmute" and not s["span"].get("m") and \
                    not (norm_ty(rv["from"]) == "*const ()" and norm_ty(rv["ty"]) == "usize"):  # rustc's debug pointer checks
                out.append((b, "transmute", "%s -> %s" % (norm_ty(rv["from"]), norm_ty(rv["ty"])), bi, s["span"]))
    return out


# ------------------------------------------------------------------------------------------------ handlers

def dominating_guard(b, tm, site_block, pred):
    """A switch whose passing edge dominates site_block and whose condition satisfies pred(cond_term, passing_polarity)."""
    for s, d in lib.controlling_edges(b, site_block):
        c = tm.operand(b.term(s)["discr"])
        if pred(c, lib.bool_edge_polarity(b, s, d)):
            return True
    # `a || b` chains: the site is reachable only if every disjunct is false: accept a switch that dominates the site and whose
    # failing target cannot reach the site
    dom = cfg.dominators(b)
    for s in dom[site_block]:
        if b.term(s)["k"] != "switch":
            continue
        c = tm.operand(b.term(s)["discr"])
        succs = b.succ(s)
        reach = [d for d in succs if site_block in cfg.reachable_from(b, d)]
        if len(reach) == 1 and len(succs) == 2:
            if pred(c, lib.bool_edge_polarity(b, s, reach[0])):
                return True
    return False


def h_lower_new(rep, prog, b, tm, bi, t, rule):
    ptr, cnt = tm.operand(t["args"][0]), tm.operand(t["args"][1])
    sp = [x for x in T.walk(ptr) if x[0] == "f" and x[1][0] == "call" and x[1][1] == "slice::split_at_mut"]
    if not sp:
        rep.violation(rule, "Lower::new|view-base", "view does not start at a part of split_at_mut(primary, bitfield_size): " + T.show(ptr), t["span"])
        return
    part = sp[0][2]
    mid = sp[0][1][2][1]
    ok_mid = mid[0] == "f" and mid[3] == "bitfield_size" and T.mentions_call(mid, "llfree::lower::Metadata::new")
    want_cnt = "bitfield_len" if part == 0 else "table_len"
    ok_cnt = cnt[0] == "f" and cnt[3] == want_cnt and T.mentions_call(cnt, "llfree::lower::Metadata::new")
    key = "Lower::new|view%d" % part
    rep.check(ok_mid and ok_cnt, rule, key + "|terms", "part %d of split_at_mut(primary, m.bitfield_size) viewed with m.%s elements" % (part, want_cnt),
              "view %d uses split point %s and count %s" % (part, T.show(mid), T.show(cnt)), t["span"])

    def guard(c, pol):
        cmp_ = lib.normalize_cmp(c) if c[0] == "bin" else None
        if not cmp_ or pol is None:
            return False
        lhs, rel, rhs = cmp_ if pol else lib.negate_rel(cmp_)
        return rel == "le" and T.mentions_call(rhs, "slice::len") and T.mentions_field(lhs, "bitfield_size") and T.mentions_field(lhs, "table_size")
    rep.check(dominating_guard(b, tm, bi, guard), rule, key + "|length-guard", "dominated by primary.len() >= bitfield_size + table_size",
              "raw view of the lower buffer is not dominated by the length guard", t["span"])

    def aguard(c, pol):
        return pol is True and c[0] == "call" and c[1] == "usize::is_multiple_of" and T.mentions_call(c, "core::mem::align_of")
    rep.check(dominating_guard(b, tm, bi, aguard), rule, key + "|align-guard", "dominated by the alignment guard",
              "raw view of the lower buffer is not dominated by the alignment guard", t["span"])
    # element type agreement with Metadata::new's sizing
    view_elem = elem_of_slice_ty(b.local_ty(t["dest"]["l"]))
    mb = lib.need_body(prog, "llfree::lower::Metadata::new")
    mtm = T.Terms(mb, prog)
    sized = {}
    for mbi, mt in mb.calls_to("llfree::util::size_of_slice"):
        a = mtm.operand(mt["args"][0])
        sized[generic_arg(mb, mbi)] = a
    sizing_ty = [k for k in sized if ("Bitfield" in k) == (part == 0)]
    if not sizing_ty or view_elem is None:
        rep.violation(rule, key + "|sizing-type", "cannot find the size_of_slice::<..> that sizes this view", t["span"])
        return
    ls, lv = layout(prog, sizing_ty[0]), layout(prog, view_elem)
    if ls is None or lv is None:
        rep.violation(rule, key + "|layout", "no layout for %s / %s" % (sizing_ty[0], view_elem), t["span"])
        return
    rep.check(stride(ls) >= lv["size"] and lv["align"] <= 64 and stride(ls) % lv["align"] == 0, "R-LAYOUT", key + "|stride",
              "sized as %s (stride %d), viewed as %s (size %d, align %d)" % (sizing_ty[0], stride(ls), view_elem, lv["size"], lv["align"]),
              "buffer is sized with %s (stride %d) but viewed as %s (size %d, align %d): the view overruns / is misaligned" % (
                  sizing_ty[0], stride(ls), view_elem, lv["size"], lv["align"]), t["span"])
    if part == 1:
        lb = layout(prog, [k for k in sized if "Bitfield" in k][0])
        rep.check(stride(lb) % 64 == 0, "R-LAYOUT", key + "|second-view-aligned", "bitfield_size is a multiple of 64, the table view starts aligned",
                  "the table view starts at a misaligned offset", t["span"])
    # counts in Metadata::new: size_of_slice(count) with the same count stored as *_len
    for bi2, si2, s2 in mb.stmts():
        if s2["k"] == "assign" and s2["rv"]["k"] == "aggregate" and s2["rv"]["kind"].get("adt") == "llfree::lower::Metadata":
            f = dict(zip(s2["rv"]["kind"]["fields"], [mtm.operand(o) for o in s2["rv"]["ops"]]))
            for ln, sz in (("bitfield_len", "bitfield_size"), ("table_len", "table_size")):
                okc = f[sz][0] == "call" and f[sz][1] == "llfree::util::size_of_slice" and T.canon(f[sz][2][0]) == T.canon(f[ln])
                rep.check(okc, "R-SIZE-VIEW-AGREE", "Metadata::new|%s" % sz, "%s = size_of_slice(%s)" % (sz, ln),
                          "%s is not computed from %s" % (sz, ln), s2["span"])


def h_trees_new(rep, prog, b, tm, bi, t, rule):
    ptr, cnt = tm.operand(t["args"][0]), tm.operand(t["args"][1])
    rep.check(T.canon(ptr) == ("call", "ptr_mut::cast", (("call", "slice::as_mut_ptr", (("p", "buffer"),)),)), rule, "Trees::new|base",
              "view starts at buffer", "view starts at " + T.show(ptr), t["span"])
    # dominating assert buffer.len() >= metadata_size(frames)
    okg = False
    for s in cfg.dominators(b)[bi]:
        if b.term(s)["k"] != "switch":
            continue
        c = tm.operand(b.term(s)["discr"])
        cmp_ = lib.normalize_cmp(c) if c[0] == "bin" else None
        if cmp_ and T.mentions_call(c, "llfree::trees::Trees::metadata_size") and T.mentions_call(c, "slice::len"):
            succs = [d for d in b.succ(s) if bi in cfg.reachable_from(b, d)]
            if len(succs) == 1:
                pol = lib.bool_edge_polarity(b, s, succs[0])
                lhs, rel, rhs = cmp_ if pol else lib.negate_rel(cmp_)
                okg = rel == "le" and lhs[0] == "call" and lhs[1].endswith("metadata_size") and T.canon(lhs[2][0]) == ("p", "frames")
    rep.check(okg, rule, "Trees::new|length-guard", "dominated by assert!(buffer.len() >= metadata_size(frames))",
              "raw view of the tree buffer is not dominated by the length assertion", t["span"])
    ms = lib.need_body(prog, "llfree::trees::Trees::metadata_size")
    mtm = T.Terms(ms, prog)
    sz = list(ms.calls_to("llfree::util::size_of_slice"))
    if len(sz) != 1:
        rep.violation("R-SIZE-VIEW-AGREE", "Trees|size-fn", "metadata_size does not use size_of_slice exactly once", ms.span)
        return
    scnt = mtm.operand(sz[0][1]["args"][0])
    sty = generic_arg(ms, sz[0][0])
    vty = elem_of_slice_ty(b.local_ty(t["dest"]["l"]))
    rep.check(T.canon(scnt) == T.canon(cnt), "R-SIZE-VIEW-AGREE", "Trees|count", "sized and viewed with %s entries" % T.show(cnt),
              "Trees::metadata_size sizes the buffer for %s entries but Trees::new views %s entries: accesses to the last entries "
              "run past a buffer of exactly the requested size" % (T.show(scnt), T.show(cnt)), t["span"])
    rep.check(sty == vty, "R-SIZE-VIEW-AGREE", "Trees|elem", "sized and viewed as %s" % vty, "sized as %s, viewed as %s" % (sty, vty), t["span"])
    lv = layout(prog, vty) if vty else None
    rep.check(lv is not None and lv["align"] <= 64, "R-LAYOUT", "Trees|align", "entry alignment %s <= 64 (checked by meta.valid)" % (lv and lv["align"]),
              "tree entries need alignment above the checked 64", t["span"])
    # the metadata() size function rounds the same count
    rets = [mtm.call_term(x) if y == "term" else mtm.rvalue(z) for x, y, z in lib.assignments_to_return(ms)]
    rep.check(any(T.mentions_call(r, "usize::next_multiple_of") for r in rets), "R-SIZE-VIEW-AGREE", "Trees|rounded", "size rounded up to the cache line",
              "metadata_size no longer rounds to the alignment", ms.span)


def h_offset_slice(rep, prog, b, tm, bi, t, rule):
    name = callee_name(t["callee"])
    fn = b.name.split("::")[-1]
    if name in ("ptr_const::add", "ptr_mut::add"):
        off = T.canon(tm.operand(t["args"][1]))
        base = tm.operand(t["args"][0])
        rep.check(off == ("f", ("p", "self"), "offset") and T.mentions_param(base, "buffer"), rule, "OffsetSlice::%s|add" % fn,
                  "buffer.as_ptr().add(self.offset)", "pointer offset is %s" % (off,), t["span"])
    else:
        cnt = T.canon(tm.operand(t["args"][1]))
        rep.check(cnt == ("f", ("p", "self"), "length"), rule, "OffsetSlice::%s|count" % fn, "count = self.length", "count is %s" % (cnt,), t["span"])
    # dominating assert offset + length*size_of::<T>() <= buffer.len()
    okg = False
    for s in cfg.dominators(b)[bi]:
        if b.term(s)["k"] != "switch":
            continue
        c = tm.operand(b.term(s)["discr"])
        cmp_ = lib.normalize_cmp(c) if c[0] == "bin" else None
        if not cmp_:
            continue
        succs = [d for d in b.succ(s) if bi in cfg.reachable_from(b, d)]
        if len(succs) != 1:
            continue
        pol = lib.bool_edge_polarity(b, s, succs[0])
        lhs, rel, rhs = cmp_ if pol else lib.negate_rel(cmp_)
        if rel == "le" and rhs[0] == "call" and rhs[1] == "slice::len" and T.mentions_param(rhs, "buffer"):
            ok_terms = T.mentions_field(lhs, "offset") and T.mentions_field(lhs, "length") and T.mentions_call(lhs, "core::mem::size_of")
            okg = ok_terms
    rep.check(okg, rule, "OffsetSlice::%s|%s|guard" % (fn, name.split("::")[-1]), "dominated by assert!(offset + length * size_of::<T>() <= buffer.len())",
              "raw slice is not dominated by the bounds assertion", t["span"])


def h_toggle_int(rep, prog, b, tm, bi, t, rule):
    idx = tm.operand(t["args"][1])
    LEN = prog.crate("llfree").const("llfree::bitfield::Bitfield::LEN")
    ok = (idx[0] == "bin" and idx[1] == "Div" and idx[2][0] == "bin" and idx[2][1] == "Rem" and T.const_val(idx[2][3]) == LEN
          and idx[3][0] == "bin" and idx[3][1].startswith("Mul") and 8 in (T.const_val(idx[3][2]), T.const_val(idx[3][3]))
          and T.mentions_call(idx[3], "core::mem::size_of"))
    rep.check(ok, rule, "toggle_int|index", "cell index = (i % LEN) / (8 * size_of::<I>()) < cells per bitfield",
              "narrow-atomic index is %s" % T.show(idx), t["span"])
    lb = layout(prog, "bitfield::Bitfield")
    rep.check(lb is not None and lb["size"] * 8 == LEN, "R-LAYOUT", "toggle_int|bitfield-bits", "size_of::<Bitfield>() * 8 == LEN",
              "Bitfield does not hold LEN bits", t["span"])
    base = tm.operand(t["args"][0])
    rep.check(any(x[0] == "f" and x[3] == "data" for x in T.walk(base)), rule, "toggle_int|base", "base = self.data.as_ptr()", "base is " + T.show(base), t["span"])
    # instantiations
    cg, _ = lib.analyses(prog)
    for cb, cbi, ct in cg.call_sites_of(b.name):
        ity = generic_arg(cb, cbi)
        li = layout(prog, "atomic::Atom<%s>" % ity) if ity else None
        rep.check(li is not None and li["size"] in (1, 2, 4, 8) and li["align"] == li["size"], "R-LAYOUT", "toggle_int|instance|%s" % ity,
                  "Atom<%s>: size = align = %s (naturally aligned cell inside [Atom<u64>; ROWS])" % (ity, li and li["size"]),
                  "toggle_int::<%s> has no suitable atomic cell layout" % ity, ct["span"])


def h_overlap(rep, prog, b, tm, bi, t, rule):
    ptr = tm.operand(t["args"][0])
    # ptr.sub(1) on a range end needs the range to be non-empty
    def pred(c, pol):
        s = T.show(c)
        if c[0] == "call" and c[1].endswith("is_empty") and pol is False:
            return True
        cmp_ = lib.normalize_cmp(c) if c[0] == "bin" else None
        if cmp_ and pol is not None:
            lhs, rel, rhs = cmp_ if pol else lib.negate_rel(cmp_)
            return rel in ("lt", "ne") and T.mentions_field(lhs, "start") and T.mentions_field(rhs, "end")
        return False
    rep.check(dominating_guard(b, tm, bi, pred), rule, "MetaData::valid::overlap|sub|%s" % T.show(ptr),
              "end.sub(1) only for a non-empty range",
              "`%s.sub(1)` is computed for possibly empty ranges: for an empty metadata buffer (zero slots / zero frames) the pointer "
              "leaves its allocation, which is undefined behaviour" % T.show(ptr), t["span"])


def h_aligned_buf(rep, prog, b, tm, bi, t, rule):
    name = callee_name(t["callee"])
    if name == "alloc::alloc::alloc_zeroed":
        def pred(c, pol):
            cmp_ = lib.normalize_cmp(c) if c[0] == "bin" else None
            if cmp_ and pol is not None:
                lhs, rel, rhs = cmp_ if pol else lib.negate_rel(cmp_)
                if rel == "ne" and {T.canon(lhs), T.canon(rhs)} == {("p", "size"), ("c", 0)}:
                    return True
                if rel == "lt" and T.canon(lhs) == ("c", 0) and T.canon(rhs) == ("p", "size"):
                    return True
            return False
        rep.check(dominating_guard(b, tm, bi, pred), rule, "aligned_buf|alloc-nonzero", "alloc_zeroed only for size != 0",
                  "alloc_zeroed is called with a possibly zero-sized layout (undefined behaviour; empty metadata buffers are a supported "
                  "configuration)", t["span"])
    else:
        ptr = tm.operand(t["args"][0])
        if not T.mentions_call(ptr, "alloc::alloc::alloc_zeroed"):
            rep.ok(rule, "aligned_buf|view-dangling", "zero-length view over an aligned dangling pointer", t["span"])
            return

        def pred(c, pol):
            if c[0] == "call" and c[1] in ("ptr_mut::is_null", "ptr_const::is_null") and pol is False:
                return True
            return False
        rep.check(dominating_guard(b, tm, bi, pred), rule, "aligned_buf|null-check", "slice built only from a non-null allocation",
                  "the result of alloc_zeroed is turned into a slice without a null check", t["span"])


def handle(rep, prog, b, kind, what, bi, span, rule):
    """Returns True if the site is a reviewed one."""
    fn = b.name
    tm = T.Terms(b, prog)
    t = b.term(bi) if kind == "call" else None
    if kind == "call":
        if fn == "llfree::lower::Lower::new" and what in FRP:
            h_lower_new(rep, prog, b, tm, bi, t, rule)
            return True
        if fn == "llfree::trees::Trees::new" and what in FRP:
            h_trees_new(rep, prog, b, tm, bi, t, rule)
            return True
        if fn.startswith("llfree::util::OffsetSlice::as_slice") and (what in FRP or what in ("ptr_const::add", "ptr_mut::add")):
            h_offset_slice(rep, prog, b, tm, bi, t, rule)
            return True
        if fn == "llfree::bitfield::Bitfield::toggle_int" and what == "ptr_const::add":
            h_toggle_int(rep, prog, b, tm, bi, t, rule)
            return True
        if fn == "llfree::MetaData::valid::overlap" and what == "ptr_const::sub":
            h_overlap(rep, prog, b, tm, bi, t, rule)
            return True
        if fn == "llfree::util::aligned_buf" and what in ("alloc::alloc::alloc_zeroed",) + FRP:
            h_aligned_buf(rep, prog, b, tm, bi, t, rule)
            return True
        if fn == "llfree::wrapper::NvmAlloc::create" and what in FRP:
            rep.ok(rule, "NvmAlloc::create|lower-view", "pointer/length/split-point obligations are R-NVM-LAYOUT (checked below)", span)
            return True
        if fn.endswith("::metadata") and b.is_unsafe:
            # unsafe fn: obligations are the caller's (witness W1); structural part (base/length) is R-META-ROUNDTRIP under C07
            rep.ok(rule, "%s|%s" % (fn, what.split("::")[-1]), "inside an `unsafe fn`: the obligation is the caller's (W1); base and length checked by R-META-ROUNDTRIP", span)
            return True
        if fn == "<slice as llfree::atomic::AtomicSlice>::non_atomic" and what in FRP and b.is_unsafe:
            cnt = T.canon(tm.operand(t["args"][1]))
            rep.check(cnt == ("call", "slice::len", (("p", "self"),)), rule, "non_atomic|count", "same length", "length is %s" % (cnt,), span)
            return True
        if fn == "<slice as llfree::atomic::AtomicSlice>::inner_atomic" and what in FRP:
            cnt = T.canon(tm.operand(t["args"][1]))
            tr = prog.crate("llfree").adts.get("llfree::atomic::Atom", {}).get("repr_transparent")
            rep.check(cnt == ("call", "slice::len", (("p", "self"),)) and tr, rule, "inner_atomic|view", "same length, Atom is repr(transparent)",
                      "inner_atomic: length %s, repr(transparent)=%s" % (cnt, tr), span)
            return True
        if what == "<slice as llfree::atomic::AtomicSlice>::non_atomic":
            rep.ok(rule, "%s|non_atomic" % fn, "caller restricted by R-NONATOMIC-CALLERS", span)
            return True
    if kind == "rawderef":
        if fn == "llfree::bitfield::Bitfield::toggle_int":
            rep.ok(rule, "toggle_int|deref", "deref of the cell pointer computed by the checked add", span)
            return True
        if fn in ("llfree::frame::Frame::cast", "llfree::frame::Frame::cast_mut"):
            cg, _ = lib.analyses(prog)
            lf = layout(prog, "frame::Frame")
            n = 0
            for cb, cbi, ct in cg.call_sites_of(fn):
                ty = generic_arg(cb, cbi)
                lt = layout(prog, ty) if ty else None
                n += 1
                rep.check(lt is not None and lf is not None and lt["size"] <= lf["size"] and lt["align"] <= lf["align"], "R-LAYOUT",
                          "Frame::cast|%s" % ty, "%s (size %s, align %s) fits a Frame (%s)" % (ty, lt and lt["size"], lt and lt["align"], lf and lf["size"]),
                          "Frame::cast::<%s> does not fit / is over-aligned for a Frame" % ty, ct["span"])
            rep.ok(rule, "%s|deref" % fn.split("::")[-1], "%d instantiation(s) checked by R-LAYOUT" % n, span)
            return True
    if kind == "transmute":
        if fn.startswith("llfree::util::logging"):
            rep.ok(rule, "logging|transmute", "std-only diagnostics (ThreadId -> u64), not reachable from the allocator API", span)
            return True
    return False


def r_layout_table(rep, prog):
    rule = "R-LAYOUT"
    rep.rule(rule, "layout_of facts per configuration: sizing strides vs viewing sizes, Atom<T> == T, Meta inside Frame")
    for x in ("trees::Tree", "local::LocalTree", "lower::HugeEntry", "u64"):
        la, lx = layout(prog, "atomic::Atom<%s>" % x), layout(prog, x)
        if x == "u64":
            lx = {"size": 8, "align": 8}
        rep.check(la is not None and lx is not None and la == lx, rule, "Atom<%s>" % x, "Atom<%s> has the layout of %s (%s)" % (x, x, la),
                  "Atom<%s> %s differs from %s %s" % (x, la, x, lx))
    ll = layout(prog, "local::Local")
    rep.check(ll == {"size": 64, "align": 64}, rule, "Local", "Local is one cache line", "Local layout is %s" % ll)
    lm, lf = layout(prog, "wrapper::Meta"), layout(prog, "frame::Frame")
    FS = prog.crate("llfree").const("llfree::frame::Frame::SIZE")
    rep.check(lm is not None and lf is not None and lm["size"] <= lf["size"] and lm["align"] <= lf["align"] and lf["size"] == FS, rule,
              "Meta-in-Frame", "Meta %s fits Frame %s" % (lm, lf), "Meta %s does not fit Frame %s" % (lm, lf))
    la = layout(prog, "util::Align")
    rep.check(la is not None and la["align"] == 64, rule, "Align", "align_of::<Align>() == 64 (the alignment meta.valid checks)", "Align is %s" % la)


def r_nonatomic_callers(rep, prog):
    rule = "R-NONATOMIC-CALLERS"
    rep.rule(rule, "non_atomic (hands out &mut to shared storage) is used only during single-threaded initialisation")
    cg, _ = lib.analyses(prog)
    callers = {b.name for b, bi, t in cg.call_sites_of("<slice as llfree::atomic::AtomicSlice>::non_atomic") if b.crate.name == "llfree"}
    rep.check(callers <= {"llfree::lower::Lower::free_all", "llfree::lower::Lower::reserve_all"} and callers, rule, "callers",
              "called from %s" % sorted(c.split("::")[-1] for c in callers), "non_atomic is called from %s" % sorted(callers))
    for f in ("llfree::lower::Lower::free_all", "llfree::lower::Lower::reserve_all"):
        cs = {b.name for b, bi, t in cg.call_sites_of(f)}
        rep.check(cs == {"llfree::lower::Lower::new"}, rule, "%s|caller" % f.split("::")[-1], "only called from Lower::new (before the value is shared)",
                  "%s is called from %s" % (f, sorted(cs)))
    # callers of unsafe fns `metadata` are unsafe fns themselves
    for name, b in prog.crate("llfree").bodies.items():
        if not name.endswith("::metadata"):
            continue
        for cb, cbi, ct in cg.call_sites_of(name):
            if cb.crate.name == "llfree":
                rep.check(cb.is_unsafe, rule, "metadata|caller|%s" % cb.name, "caller is an unsafe fn", "%s calls %s from safe code" % (cb.name, name), ct["span"])


def r_send_sync(rep, prog):
    rule = "R-SEND-SYNC"
    rep.rule(rule, "types with `unsafe impl Send/Sync` hold shared state only behind Atom / immutable slices (type walk)")
    adts = prog.crate("llfree").adts
    for ty in ("llfree::lower::Lower", "llfree::llfree::LLFree"):
        a = adts.get(ty)
        if a is None:
            rep.violation(rule, ty, "type not found")
            continue
        fields = [(f["name"], f["ty"]) for v in a["variants"] for f in v["fields"]]
        bad = [(n, t) for n, t in fields if re.search(r"Cell<|\*mut |\*const |RefCell|Rc<", t)]
        rep.check(not bad, rule, ty.split("::")[-1], "fields: %s" % [n for n, _ in fields], "fields with unsynchronised interior mutability: %s" % bad)


WITNESS_DIR = os.path.join(os.path.dirname(os.path.dirname(os.path.dirname(os.path.abspath(__file__)))), "witness")


def witnesses(rep, tier):
    rule = "WITNESS"
    rep.rule(rule, "compile_fail doc tests (with compiling twins): Alloc::metadata and AtomicSlice::non_atomic need `unsafe` (E0133); "
                   "metadata buffers must outlive the allocator (E0597)")
    run = os.path.join(WITNESS_DIR, "run.sh")
    if os.environ.get("VERIF_NO_WITNESS") and os.environ.get("VERIF_REPO"):
        rep.note("witness doc tests skipped (VERIF_NO_WITNESS, scratch copy only)")
        return
    if not os.path.exists(run):
        rep.violation(rule, "witness-crate", "witness crate missing")
        return
    r = subprocess.run([run], capture_output=True, text=True)
    out = r.stdout + r.stderr
    ms = re.findall(r"test result: (\w+)\. (\d+) passed; (\d+) failed", out)
    if r.returncode == 0 and ms and all(m[0] == "ok" for m in ms):
        n = sum(int(m[1]) for m in ms)
        rep.check(n >= 6, rule, "doc-tests", "%d witness doc tests (compile_fail + twins) behave as expected" % n, "only %d witness tests ran" % n)
        for line in out.splitlines():
            mm = re.match(r"test (src/lib\.rs - \S+) \(line \d+\)( - compile fail)? \.\.\. ok", line)
            if mm:
                rep.ok(rule, mm.group(1).replace("src/lib.rs - ", "") + (" [compile_fail]" if mm.group(2) else " [twin]"), "as expected")
    else:
        fails = [l for l in out.splitlines() if "FAILED" in l or l.startswith("error")]
        rep.violation(rule, "doc-tests", "witness doc tests failed: %s" % (fails[:6] or out[-400:]))


def run(rep, programs):
    rule = "UNSAFE-LEDGER"
    rep.rule(rule, "every unsafe operation in crate llfree is a reviewed site whose obligations are discharged structurally")
    # the eval build of llfree (feature std) is a superset: aligned_buf, logging
    prog = programs["eval"] if rep.config == "default" and "eval" in programs else programs["core"]
    sites = unsafe_sites(prog)
    n = 0
    for b, kind, what, bi, span in sites:
        n += 1
        if not handle(rep, prog, b, kind, what, bi, span, rule):
            rep.violation(rule, "%s|%s|%s" % (b.name, kind, what), "unreviewed unsafe operation (%s %s): no obligation table entry covers it" % (kind, what), span)
    rep.floor(rule, "unsafe operations in llfree", n, 12)
    r_layout_table(rep, prog)
    r_nonatomic_callers(rep, prog)
    r_send_sync(rep, prog)
    from props import c17
    c17.r_nvm_layout(rep, prog)
    # base and length of the slices handed back by the `unsafe fn metadata` family (cited by the ledger)
    from props import c07
    c07.r_meta_roundtrip(rep, prog)
    # Locals: offsets advance by the size of the slice they describe
    b = lib.need_body(prog, "llfree::local::Locals::new")
    tm = T.Terms(b, prog)
    ok = False
    for bi, t in b.calls_to("llfree::util::OffsetSlice::new"):
        cnt = T.canon(tm.operand(t["args"][1]))
        for bi2, t2 in b.calls_to("llfree::util::size_of_slice"):
            if T.canon(tm.operand(t2["args"][0])) == cnt and generic_arg(b, bi2) == "local::Local":
                ok = True
    ms = lib.need_body(prog, "llfree::local::Locals::metadata_size")
    ok2 = any(generic_arg(ms, bi) == "local::Local" for bi, t in ms.calls_to("llfree::util::size_of_slice"))
    rep.check(ok and ok2, "R-SIZE-VIEW-AGREE", "Locals|offsets", "slot arrays are laid out with size_of_slice::<Local>(count), the unit metadata_size sums",
              "Locals::new advances offsets with a different unit than Locals::metadata_size")


def extra(rep, tier):
    witnesses(rep, tier)
