"""C19 — benchmark class configurations always produce valid requests.
R-SLOT-TABLES (sibling tables Count::to_count / Count::to_local), request/classing element agreement,
and E4: static lint of the shipped results/classes*.json. DESIGN.md §4 C19."""
import glob
import json
import os

import cfg
import lib
import terms as T
from facts import callee_name

KINDS = ["eval"]
QUICK_CONFIGS = ["default"]
THOROUGH_CONFIGS = ["default"]
LEVEL_TEXT = ("exhaustive per-variant comparison of two sibling match tables in rustc MIR (every Count kind, symbolic in cores/core/pid), "
              "plus provenance of the class and slot of a generated request and a lint of the shipped configuration data: decides "
              "slot index < slot count for every kind whenever count > 0; configurations with duplicate ids of different kinds are reported")
TECHNIQUE = "sibling-table agreement over enum discriminant arms with symbolic terms; value provenance; JSON configuration lint"
EXPLANATION = (
    "R-SLOT-TABLES: for every variant of Count (exhaustive by the discriminant switch), to_local returns None, or Some(c) with a constant "
    "c < to_count's constant, or Some(x % m) with m the same term as to_count's value for that variant (index < count whenever count > 0). "
    "R-REQUEST-ELEMENT: ClassingConfig::request takes the class id and the slot from the same ClassConfig element, and classing() builds "
    "(Class(c.id), c.count.to_count(cores)) from one element. E4: shipped results/classes*.json: ids < 8, default among ids, entries with "
    "equal id agree in count kind, order ranges well-formed."
)

CNT = "llfree_eval::classes::Count::"


def arms(b, tm, self_local=1):
    """variant discr -> term of the returned value."""
    sw = None
    for s in range(b.nblocks()):
        t = b.term(s)
        if t["k"] == "switch":
            c = tm.operand(t["discr"])
            if c[0] == "discr" and T.canon(c[1]) == ("p", "self"):
                sw = s
                break
    if sw is None:
        return None
    out = {}
    t = b.term(sw)
    all_targets = {x for _, x in t["targets"]} | {t["otherwise"]}
    for v, tg in t["targets"]:
        r = cfg.reachable_from(b, tg)
        own = cfg.reachable_from(b, tg, stop=all_targets - {tg})      # blocks only this arm runs before the arms join
        vals = []
        for bi, si, rv in lib.assignments_to_return(b):
            if bi in r:
                val = tm.call_term(bi) if si == "term" else tm.rvalue(rv)
                # a value computed per arm and wrapped after the join (`let x = match ..; Some(x)`): take this arm's definition
                for _ in range(4):
                    opaque = [x for x in T.walk(val) if x[0] == "l"]
                    done = True
                    for x in opaque:
                        defs = [(dbi, dsi) for (dbi, dsi) in b.whole_defs(x[1]) if dbi in own]
                        if len(defs) == 1:
                            dbi, dsi = defs[0]
                            dt = tm.call_term(dbi) if dsi == "term" else tm.rvalue(b.blocks[dbi]["stmts"][dsi]["rv"])
                            val = T.subst(val, x, dt)
                            done = False
                    if done:
                        break
                if bi in own or not any(bi2 in own for bi2, _, _ in lib.assignments_to_return(b)):
                    vals.append(val)
        out[v] = vals
    return out


def r_slot_tables(rep, prog):
    rule = "R-SLOT-TABLES"
    rep.rule(rule, "per Count variant: to_local is None, Some(const < count) or Some(x % count-term)")
    ec = prog.crate("llfree_eval")
    adt = ec.adts.get("llfree_eval::classes::Count")
    if adt is None:
        from framework import AnchorMissing
        raise AnchorMissing("enum llfree_eval::classes::Count")
    bc = lib.need_body(prog, CNT + "to_count")
    bl = lib.need_body(prog, CNT + "to_local")
    rep.saw(bc.name, bl.name)
    tc, tl = T.Terms(bc, prog), T.Terms(bl, prog)
    ac, al = arms(bc, tc), arms(bl, tl)
    if ac is None or al is None:
        rep.violation(rule, "tables|switch", "to_count/to_local are not a match on self", bc.span)
        return
    n = 0
    for v in adt["variants"]:
        d, name = v["discr"], v["name"]
        key = "Count::%s" % name
        cv, lv = ac.get(d), al.get(d)
        if not cv or not lv or len(cv) != 1 or len(lv) != 1:
            rep.violation(rule, key + "|arm", "variant %s is not handled by exactly one arm in both tables" % name, bl.span)
            continue
        n += 1
        count, local = cv[0], lv[0]
        if local[0] == "agg" and local[1].startswith("adt:core::option::Option::None"):
            rep.ok(rule, key, "no slot (count = %s)" % T.show(count))
            continue
        if not (local[0] == "agg" and local[1].startswith("adt:core::option::Option::Some")):
            rep.violation(rule, key, "cannot decide: to_local returns %s" % T.show(local), bl.span)
            continue
        idx = local[2][0]
        ci, cc = T.const_val(idx), T.const_val(count)
        if ci is not None:
            if cc is not None:
                rep.check(ci < cc, rule, key, "slot %d < count %d" % (ci, cc),
                          "kind %s: to_local returns slot %d but to_count gives %d slots: the request names a slot that does not exist" % (name, ci, cc), bl.span)
            else:
                rep.check(ci == 0, rule, key, "slot 0 of %s slots" % T.show(count),
                          "kind %s: constant slot %d against a symbolic count %s" % (name, ci, T.show(count)), bl.span)
            continue
        if idx[0] == "bin" and idx[1] == "Rem":
            m = idx[3]
            same = _same_modulo_params(m, bl, count, bc)
            rep.check(same, rule, key, "slot = x %% %s = count" % T.show(m),
                      "kind %s: slot is computed modulo %s but the class has %s slots" % (name, T.show(m), T.show(count)), bl.span)
            continue
        rep.violation(rule, key, "cannot decide: slot index %s is neither a constant nor a remainder" % T.show(idx), bl.span)
    rep.floor(rule, "Count variants compared", n, 5)


def _same_modulo_params(m, bl, count, bc):
    """Compare terms of two functions: parameters are matched by name."""
    def norm(t):
        t = T.canon(t)
        return t
    return norm(m) == norm(count)


def r_request_element(rep, prog):
    rule = "R-REQUEST-ELEMENT"
    rep.rule(rule, "request(): class id and slot come from the same configuration element; classing(): (id, count) from one element")
    fn = "llfree_eval::classes::ClassingConfig::request"
    b = lib.need_body(prog, fn)
    rep.saw(fn)
    tm = T.Terms(b, prog)
    n = 0
    for bi, t in b.calls_to("llfree::Request::new"):
        n += 1
        cls = tm.operand(t["args"][1])
        loc = tm.operand(t["args"][2])
        order = T.canon(tm.operand(t["args"][0]))
        # element of the class id
        def element(x):
            for y in T.walk(x):
                if y[0] == "f" and y[3] in ("id", "count"):
                    return T.canon(y[1])
            return None
        e1, e2 = element(cls), element(loc)
        ok = e1 is not None and e1 == e2 and loc[0] == "call" and loc[1] == CNT + "to_local"
        rep.check(ok, rule, "request|same-element", "Class(config.id) and config.count.to_local(..) of the same element",
                  "class id comes from %s but the slot from %s" % (e1, e2), t["span"])
        rep.check(order == ("p", "order"), rule, "request|order", "order forwarded", "order is %s" % (order,), t["span"])
        if loc[0] == "call":
            a = [T.canon(x) for x in loc[2][1:]]
            rep.check(a == [("p", "core"), ("p", "cores"), ("p", "pid")], rule, "request|to_local-args", "to_local(core, cores, pid)",
                      "to_local receives %s" % (a,), t["span"])
    rep.floor(rule, "Request::new sites in request()", n, 1)
    c = lib.need_body(prog, "llfree_eval::classes::ClassingConfig::classing::{closure#0}")
    ctm = T.Terms(c, prog)
    ok = False
    for bi, si, rv in lib.assignments_to_return(c):
        if si == "term":
            continue
        t = ctm.rvalue(rv)
        if t[0] == "agg" and len(t[2]) == 2:
            cls, cnt = t[2]
            e1 = [T.canon(y[1]) for y in T.walk(cls) if y[0] == "f" and y[3] == "id"]
            e2 = [T.canon(y[1]) for y in T.walk(cnt) if y[0] == "f" and y[3] == "count"]
            ok = bool(e1) and e1 == e2 and cnt[0] == "call" and cnt[1] == CNT + "to_count" and T.canon(cnt[2][1]) == ("up", "cores")
    rep.check(ok, rule, "classing|same-element", "(Class(c.id), c.count.to_count(cores))", "classing() pairs id and count of different elements", c.span)
    # the same `cores` reaches both tables in the replay driver is outside this crate's reach: reported
    rep.note("request(core, cores, ..) and classing(cores) must be called with the same `cores`; callers are eval binaries (replay: both use the parsed trace's core count)")


def extra(rep, tier):
    """E4: lint of the shipped class configurations (data, not code)."""
    rule = "E4-CONFIG-LINT"
    rep.rule(rule, "results/classes*.json: ids < 8, default in ids, equal ids agree in count kind, order ranges well-formed")
    import build
    files = sorted(glob.glob(os.path.join(build.REPO, "results", "classes*.json")))
    rep.floor(rule, "shipped class configuration files", len(files), 1)
    kinds = {"zero", "one", "cores", "cores_half", "pids"}
    for f in files:
        name = os.path.basename(f)
        try:
            j = json.load(open(f))
        except Exception as e:
            rep.violation(rule, "%s|parse" % name, "not valid JSON: %s" % e)
            continue
        cl = j.get("classes", [])
        ids = [c.get("id") for c in cl]
        rep.check(all(isinstance(i, int) and 0 <= i < 8 for i in ids), rule, "%s|ids" % name, "ids %s < 8" % sorted(set(ids)), "class ids out of range: %s" % ids)
        rep.check(j.get("default") in ids, rule, "%s|default" % name, "default class %s is configured" % j.get("default"),
                  "default class %s is not among the configured ids %s" % (j.get("default"), sorted(set(ids))))
        rep.check(all(c.get("count") in kinds for c in cl), rule, "%s|kinds" % name, "count kinds known", "unknown count kind in %s" % [c.get("count") for c in cl])
        byid = {}
        for c in cl:
            byid.setdefault(c.get("id"), set()).add(c.get("count"))
        dup = {i: k for i, k in byid.items() if len(k) > 1}
        rep.check(not dup, rule, "%s|same-kind-per-id" % name, "entries with equal id agree in count kind",
                  "entries with the same class id use different count kinds %s: Classing keeps one slot array per id, so a request built "
                  "from the other entry can name a slot beyond it" % dup)
        bad = [c.get("order") for c in cl if c.get("order") is not None and not (isinstance(c["order"], list) and len(c["order"]) == 2 and c["order"][0] <= c["order"][1])]
        rep.check(not bad, rule, "%s|order-ranges" % name, "order ranges well-formed", "malformed order ranges %s" % bad)
        rep.check(len(cl) >= 1, rule, "%s|nonempty" % name, "at least one class (request() falls back to classes[0])", "no classes: request() indexes classes[0]")


def r_classing_complete(rep, prog):
    """Every class the configuration can name in a request is handed to Classing::new: the class table is an unfiltered map over
    self.classes whose element is (Class(c.id), c.count.to_count(cores))."""
    rule = "R-CLASSING-COMPLETE"
    rep.rule(rule, "ClassingConfig::classing passes every configured class (id, to_count) to Classing::new, none filtered out")
    fn = "llfree_eval::classes::ClassingConfig::classing"
    b = lib.need_body(prog, fn)
    rep.saw(fn)
    tm = T.Terms(b, prog)
    news = lib.find_calls(b, "llfree::Classing::new")
    if len(news) != 1:
        rep.violation(rule, "classing|new", "expected one Classing::new call, found %d" % len(news), b.span)
        return
    arg = tm.operand(news[0][1]["args"][0])
    calls = [x[1] for x in T.walk(arg) if x[0] == "call"]
    allowed = ("slice::iter", "core::iter::traits::iterator::Iterator::map", "core::iter::traits::iterator::Iterator::collect",
               "alloc::vec::Vec::leak", "core::ops::deref::Deref::deref", "<alloc::vec::Vec as core::ops::deref::Deref>::deref",
               "alloc::vec::Vec::as_slice", "core::iter::traits::iterator::Iterator::enumerate")
    extra = sorted({c for c in calls if c not in allowed and not c.endswith("::deref") and not c.endswith("::into_iter")})
    over = any(x[0] == "f" and x[3] == "classes" for x in T.walk(arg))
    if not over:
        rep.note("R-CLASSING-COMPLETE undecided: the class table is not built by an iterator chain over self.classes")
        rep.check(True, rule, "classing|all-classes", "undecided: class table built another way")
        return
    rep.check(over and not extra, rule, "classing|all-classes", "the class table is a plain map over self.classes",
              "the class table handed to Classing::new is narrowed or reordered by %s: a class that requests can name is not configured "
              "in the allocator, which then rejects those requests" % (", ".join(extra) or "an unrecognised expression"), news[0][1]["span"])
    ok_elem = False
    for cb in prog.crate("llfree_eval").closures_of(fn):
        ctm = T.Terms(cb, prog)
        for bi, si, rv in lib.assignments_to_return(cb):
            if si == "term":
                continue
            r = T.canon(ctm.rvalue(rv))
            if r[0] == "agg" and r[1] == "tuple" and len(r[2]) == 2:
                cls, cnt = r[2]
                ok_elem = (cls[0] == "agg" and "Class" in cls[1] and cls[2] and cls[2][0][0] == "f" and cls[2][0][2] == "id"
                           and cnt[0] == "call" and cnt[1] == CNT + "to_count" and cnt[2][0][0] == "f" and cnt[2][0][2] == "count"
                           and cls[2][0][1] == cnt[2][0][1])
    rep.check(ok_elem, rule, "classing|element", "element = (Class(c.id), c.count.to_count(cores)) of the same config c",
              "the class table elements are not (Class(c.id), c.count.to_count(cores))", b.span)


def run(rep, programs):
    prog = programs["eval"]
    r_slot_tables(rep, prog)
    r_request_element(rep, prog)
    r_classing_complete(rep, prog)


def r_classing_table(rep, prog):
    """The class list a configuration produces reaches the allocator through Classing::new (writer) and Classing::classes (reader):
    the reader returns the first `classes_len` positions, so the writer has to put the i-th given class at position i."""
    rule = "R-CLASSING-TABLE"
    rep.rule(rule, "Classing::new stores the given list in the first classes.len() positions, in order, and records that length; "
                   "Classing::classes returns exactly classes_raw[..classes_len]")
    nb = lib.need_body(prog, "llfree::Classing::new")
    cb = lib.need_body(prog, "llfree::Classing::classes")
    rep.saw(nb.name, cb.name)
    tm = T.Terms(nb, prog)
    LEN = ("call", "slice::len", (("p", "classes"),))
    cps = lib.find_calls(nb, "slice::copy_from_slice")
    decided = False
    if cps:
        decided = True
        bi, t = cps[0]
        dst = T.canon(tm.operand(t["args"][0]))
        src = T.canon(tm.operand(t["args"][1]))
        rng = [x for x in T.walk(dst) if x[0] == "agg" and str(x[1]).startswith("adt:core::ops::range::")]
        good = src == ("p", "classes") and len(rng) == 1 and rng[0][1].startswith("adt:core::ops::range::RangeTo::") and rng[0][2] == (LEN,)
        if not good and len(rng) == 1 and rng[0][1].startswith("adt:core::ops::range::Range::") and len(rng[0][2]) == 2:
            good = src == ("p", "classes") and rng[0][2][0] == ("c", 0) and rng[0][2][1] == LEN
        rep.check(good, rule, "Classing::new|prefix-copy", "classes_raw[..classes.len()].copy_from_slice(classes)",
                  "Classing::new does not copy the given class list into the first classes.len() positions of the table", t["span"])
    else:
        # element-wise writes: the position must be the position in the given list, not something read from the element
        writes = []
        for bi, si, s in nb.stmts():
            if s["k"] == "assign" and any(e["k"] in ("index", "cindex") for e in (s["place"].get("p") or [])):
                writes.append((bi, si, s))
        for bi, si, s in writes:
            idx = [e for e in s["place"]["p"] if e["k"] == "index"]
            if not idx:
                continue
            it = tm.local(idx[0]["l"])
            nexts = [x for x in T.walk(it) if x[0] == "call" and str(x[1]).endswith("::next")]
            from_elem = any(x[0] == "f" and any(y[0] == "call" and str(y[1]).endswith("::next") and "Enumerate" not in str(y[1])
                                                 and "ops::range::Range" not in str(y[1]) for y in T.walk(x[1])) for x in T.walk(it))
            counter = bool(nexts) and all("Enumerate" in str(x[1]) or "ops::range::Range" in str(x[1]) for x in nexts)
            decided = True
            if counter and not from_elem:
                rep.check(True, rule, "Classing::new|position", "the table position is the position in the given list")
            elif from_elem or not nexts:
                rep.violation(rule, "Classing::new|position",
                              "the table position is computed from the element (%s), not from its position in the given list: "
                              "Classing::classes returns the first classes_len positions, so sparse or duplicate class ids are "
                              "lost or replaced by filler entries" % T.show(it)[:100], s.get("span"))
            else:
                decided = False
    if not decided:
        rep.check(True, rule, "Classing::new|prefix-copy", "undecided: the table is filled in a form the rule does not know")
        rep.note("%s: Classing::new fills the table in an unrecognised form; order/prefix agreement undecided" % rule)
    # the recorded length
    good = False
    for bi, si, rv in lib.assignments_to_return(nb):
        t = tm.call_term(bi) if si == "term" else tm.rvalue(rv)
        c = T.canon(t)
        if c[0] == "agg" and c[1].startswith("adt:llfree::Classing") and len(c[2]) >= 2:
            good = c[2][1] == LEN
    rep.check(good, rule, "Classing::new|len", "classes_len = classes.len()", "Classing::new does not record the length of the given list", nb.span)
    ctm = T.Terms(cb, prog)
    good = False
    for bi, si, rv in lib.assignments_to_return(cb):
        t = ctm.call_term(bi) if si == "term" else ctm.rvalue(rv)
        c = T.canon(t)
        rng = [x for x in T.walk(c) if x[0] == "agg" and str(x[1]).startswith("adt:core::ops::range::")]
        raw = any(x == ("f", ("p", "self"), "classes_raw") for x in T.walk(c))
        if raw and len(rng) == 1:
            r = rng[0]
            ln = ("f", ("p", "self"), "classes_len")
            good = (r[1].startswith("adt:core::ops::range::RangeTo::") and r[2] == (ln,)) or (
                r[1].startswith("adt:core::ops::range::Range::") and r[2] == (("c", 0), ln))
    rep.check(good, rule, "Classing::classes|prefix", "returns classes_raw[..classes_len]",
              "Classing::classes does not return the first classes_len positions of the table", cb.span)


_run_c19 = run


def run(rep, programs):  # noqa: F811
    _run_c19(rep, programs)
    r_classing_table(rep, programs["eval"])


EXPLANATION = EXPLANATION + (
    ' R-CLASSING-TABLE: Classing::new stores the given class list in the first classes.len() table positions in order and records that length; Classing::classes returns exactly that prefix.'
)
