"""C14 — per-class statistics count every tree frame slot exactly once.
Claimed clause: R-STATS-CONS (linear accounting of the statistics loops). DESIGN.md §4 C14."""
import cfg
import lib
import terms as T
from facts import callee_name, place_str
from props.c10 import loop_info, iter_loop_header, exits_only_by_exhaustion

KINDS = ["core"]
LEVEL_TEXT = ("linear-form analysis of the statistics loops in rustc MIR: decides that every tree entry contributes exactly TREE_FRAMES to "
              "sum(free + alloc), unconditionally and under its own class, that totals and per-class free counts are fed by the same "
              "terms under the same conditions, and what a local reservation contributes; it is the identity's code shape, not a run")
TECHNIQUE = "per-iteration contribution as normalised linear forms; control-dependence of the accumulations; merge field agreement"
EXPLANATION = (
    "R-STATS-CONS: (1) Trees::stats iterates all entries to exhaustion; in every iteration, unconditionally, free_frames += f, "
    "classes[tree.class()].free_frames += f and classes[tree.class()].alloc_frames += TREE_FRAMES - f with f = tree.free(), so the "
    "contribution to Q = sum(free+alloc) is the constant TREE_FRAMES; (2) Locals::stats adds a present reservation's counter l to the "
    "total and to its class's free count under the same condition; (3) the merge in LLFree::tree_stats adds field to corresponding "
    "field; (4) the net contribution of a reservation to Q must be 0 (its tree slot is already counted by Trees::stats)."
)


def accumulations(b, tm, blocks):
    """[(block, stmt, field-path names, amount linear, span)] for `place = place + amount` statements inside `blocks`."""
    out = []
    for bi, si, s in b.stmts():
        if bi not in blocks or s["k"] != "assign":
            continue
        p = s["place"]
        proj = p.get("p") or []
        names = [e.get("n") for e in proj if e["k"] == "field" and e.get("n")]
        if not names or names[-1] not in ("free_frames", "free_trees", "alloc_frames", "free_huge"):
            continue
        rv = tm.rvalue(s["rv"])
        self_t = tm.place(p)
        l = T.linear(rv)
        ls = T.linear(self_t)
        if l is None or ls is None:
            out.append((bi, si, names, None, s["span"], p))
            continue
        amt = T._lin_add(l, ls, -1)
        out.append((bi, si, names, amt, s["span"], p))
    return out


def unconditional_in_iteration(b, info, h, blocks, bi):
    """Every path from the Some arm of the loop test back to the header passes through block bi."""
    for s in info[3]:
        r = cfg.reachable_from(b, s, stop={bi})
        if h in r:
            return False
    return True


PARTIAL_ADAPTERS = ("take", "skip", "filter", "step_by", "take_while", "skip_while", "rev_take", "filter_map", "chain")


def _zip_of(t):
    for x in T.walk(t):
        if x[0] == "call" and x[1] == "core::iter::traits::iterator::Iterator::zip":
            return x
    return None


def _same_element(dst, src, prog):
    """dst/src: terms of the merged destination field and the (single) source field. Accepts the zip pairing
    (next().0.0 <- next().0.1 of one zip over both `classes` arrays) and the indexed pairing (same index term)."""
    if src is None:
        return False, "no single source term"
    cd, cs = T.canon(dst), T.canon(src)

    def elem(t):
        # strip the final field (free_frames / alloc_frames)
        return t[1] if isinstance(t, tuple) and t[0] == "f" else None
    ed, es = elem(cd), elem(cs)
    if ed is None or es is None:
        return False, "unrecognised element terms"
    # zip pairing: f(f(as(next(zip(A,B)),Some),0),K)
    if ed[0] == "f" and es[0] == "f" and ed[1] == es[1] and ed[1][0] == "f" and ed[1][1][0] == "as":
        z = _zip_of(ed)
        if z is not None and {ed[2], es[2]} == {0, 1}:
            a_dst, a_src = z[2][ed[2]], z[2][es[2]]

            def classes_of(t, local):
                has = any(isinstance(y, tuple) and y and y[0] == "f" and y[-1] == "classes" for y in T.walk(("x", t)))
                loc = any(isinstance(y, tuple) and y and y[0] == "call" and y[1] == "llfree::local::Locals::stats" for y in T.walk(("x", t)))
                return has and loc == local
            return classes_of(a_src, True) and classes_of(a_dst, False), "element-wise zip of stats.classes with locals.stats().classes"
    if ed[0] == "idx" and es[0] == "idx":
        same = ed[2] == es[2]
        return same, "classes[i] += local classes[j] with %s index terms" % ("identical" if same else "different")
    return False, "destination and source elements are not paired by one zip or one index"


def _merge_domain(src, prog):
    if any(x[0] == "call" and x[1].split("::")[-1] in PARTIAL_ADAPTERS for x in T.walk(src)):
        return False, "iterator is narrowed by an adapter: " + T.show(src)[:120]
    z = _zip_of(src)
    if z is not None:
        whole = all(any(y[0] == "f" and y[3] == "classes" for y in T.walk(a)) and any(
            y[0] == "call" and y[1] in ("slice::iter", "slice::iter_mut") for y in T.walk(a)) for a in z[2])
        # nothing between the arrays and the zip may reorder or drop elements
        plain = ("slice::iter", "slice::iter_mut", "llfree::local::Locals::stats")
        extra = sorted({y[1] for a in z[2] for y in T.walk(a) if y[0] == "call" and y[1] not in plain and not y[1].endswith("::into_iter")})
        if extra:
            return False, "zip arguments are adapted by %s, which can reorder or drop classes" % ", ".join(extra)
        return whole, "zip over both whole `classes` arrays in order"
    # range 0..Class::LEN or 0..classes.len()
    LEN = prog.crate("llfree").const("llfree::Class::LEN")
    for x in T.walk(src):
        if x[0] == "agg" and "Range" in x[1] and len(x[2]) == 2:
            lo, hi = T.const_val(x[2][0]), T.const_val(x[2][1])
            h = T.strip_casts(x[2][1])
            if lo == 0 and h[0] == "call" and h[1] == "slice::len" and any(y[0] == "f" and y[3] == "classes" for y in T.walk(h)):
                return True, "range 0..classes.len()"
            return (lo == 0 and LEN is not None and hi == LEN), "range %s..%s (Class::LEN = %s)" % (lo, hi, LEN)
    return False, "unrecognised iteration domain " + T.show(src)[:120]


def run(rep, programs):
    prog = programs["core"]
    rule = "R-STATS-CONS"
    rep.rule(rule, "each tree entry contributes TREE_FRAMES to sum(free+alloc) unconditionally under its class; totals and per-class "
                   "free counts use the same terms and conditions; a reservation's net contribution to the sum is 0")
    TF = prog.crate("llfree").const("llfree::TREE_FRAMES")
    # ---- (1) Trees::stats
    fn = "llfree::trees::Trees::stats"
    b = lib.need_body(prog, fn)
    rep.saw(fn)
    tm = T.Terms(b, prog)
    loops = loop_info(b)
    if len(loops) != 1:
        rep.violation(rule, "Trees::stats|loop", "expected one loop, found %d" % len(loops), b.span)
        return
    h, blocks, exits = loops[0]
    info = iter_loop_header(b, tm, h)
    ok, why = exits_only_by_exhaustion(b, tm, h, blocks, exits)
    rep.check(ok, rule, "Trees::stats|exhaustive", "visits every entry", "Trees::stats: " + why, b.term(h)["span"])
    src = info[0][2][0] if info else ("k",)
    whole = any(x[0] == "f" and x[3] == "entries" for x in T.walk(src)) and not any(
        x[0] == "call" and x[1].split("::")[-1] in ("take", "skip", "filter", "step_by") for x in T.walk(src))
    rep.check(whole, rule, "Trees::stats|domain", "iterates self.entries", "iterates " + T.show(src), b.term(h)["span"])
    acc = accumulations(b, tm, blocks)
    by = {}
    for bi, si, names, amt, span, p in acc:
        key = ("classes." if any(e["k"] in ("deref", "index") for e in (p.get("p") or [])) else "") + names[-1]
        by.setdefault(key, []).append((bi, amt, span, p))
    FREE = ("call", "llfree::trees::Tree::free", (("call", "llfree::atomic::Atom::load", ()),))

    def is_free_of_entry(amt):
        if amt is None or amt[1] != 0 or len(amt[0]) != 1:
            return False
        (a, v), = amt[0].items()
        return v == 1 and a[0] == "call" and a[1] == "llfree::trees::Tree::free" and any(
            isinstance(x, tuple) and x and x[0] == "call" and x[1] == "llfree::atomic::Atom::load" for x in T.walk(("x", a)))
    for key in ("free_frames", "classes.free_frames", "classes.alloc_frames"):
        inst = by.get(key)
        if not inst or len(inst) != 1:
            rep.violation(rule, "Trees::stats|%s" % key, "expected exactly one accumulation into %s per iteration, found %d" % (key, len(inst or [])), b.span)
            continue
        bi, amt, span, p = inst[0]
        rep.check(unconditional_in_iteration(b, info, h, blocks, bi), rule, "Trees::stats|%s|unconditional" % key,
                  "every entry is counted", "the accumulation into %s is skipped for some entries (conditional): those trees' frame "
                  "slots are missing from the per-class statistics" % key, span)
        if key in ("free_frames", "classes.free_frames"):
            rep.check(is_free_of_entry(amt), rule, "Trees::stats|%s|amount" % key, "+= tree.free()",
                      "%s is increased by %s, not by the entry's free counter" % (key, amt), span)
    # entirely free trees: += free / TREE_FRAMES (or (free == TREE_FRAMES) as usize), unconditionally
    ftacc = by.get("free_trees")
    if ftacc and len(ftacc) == 1:
        bi, amt, span, p = ftacc[0]
        good = False
        if amt is not None and amt[1] == 0 and len(amt[0]) == 1:
            (a, v), = amt[0].items()
            if v == 1 and a[0] == "bin" and a[1] == "Div" and a[3] == ("c", TF) and a[2][0] == "call" and a[2][1] == "llfree::trees::Tree::free":
                good = True
            if v == 1 and a[0] == "bin" and a[1] == "Eq" and ("c", TF) in (a[2], a[3]):
                good = True
        rep.check(good and unconditional_in_iteration(b, info, h, blocks, bi), rule, "Trees::stats|free_trees",
                  "free_trees += tree.free() / TREE_FRAMES for every entry",
                  "the count of entirely free trees is increased by %s" % (amt,), span)
    else:
        rep.violation(rule, "Trees::stats|free_trees", "expected one accumulation into free_trees per entry, found %d" % len(ftacc or []), b.span)
    fa = by.get("classes.free_frames")
    aa = by.get("classes.alloc_frames")
    if fa and aa and fa[0][1] is not None and aa[0][1] is not None:
        tot = T._lin_add(fa[0][1], aa[0][1], 1)
        rep.check(tot == ({}, TF), rule, "Trees::stats|Q-contribution", "free + alloc contribution per entry = TREE_FRAMES = %d" % TF,
                  "an entry contributes %s to sum(free+alloc) instead of TREE_FRAMES" % (tot,), aa[0][2])
        # same class slot for both, indexed by the entry's class
        sel = []
        for inst in (fa[0], aa[0]):
            t = tm.place(inst[3])
            idx = [x for x in T.walk(t) if x[0] == "idx"]
            sel.append(T.canon(idx[0][2]) if idx else None)
        good = sel[0] is not None and sel[0] == sel[1] and any(
            isinstance(x, tuple) and x and x[0] == "call" and x[1] == "llfree::trees::Tree::class" for x in T.walk(("x", sel[0])))
        rep.check(good, rule, "Trees::stats|class-slot", "both counted under classes[tree.class()]",
                  "free/alloc are counted under different or foreign class slots: %s" % (sel,), aa[0][2])
    # ---- (2) Locals::stats
    fn = "llfree::local::Locals::stats"
    b = lib.need_body(prog, fn)
    rep.saw(fn)
    tm = T.Terms(b, prog)
    loops = sorted(loop_info(b), key=lambda x: -len(x[1]))
    allblocks = set()
    for h, blocks, exits in loops:
        ok, why = exits_only_by_exhaustion(b, tm, h, blocks, exits)
        rep.check(ok, rule, "Locals::stats|exhaustive|bb", "loop runs to exhaustion", "Locals::stats: " + why, b.term(h)["span"])
        allblocks |= blocks
    acc = accumulations(b, tm, allblocks)
    lby = {}
    for bi, si, names, amt, span, p in acc:
        key = ("classes." if "classes" in names or any(e["k"] == "index" for e in (p.get("p") or [])) else "") + names[-1]
        lby.setdefault(key, []).append((bi, amt, span, p))

    def local_free(amt):
        if amt is None or amt[1] != 0 or len(amt[0]) != 1:
            return False
        (a, v), = amt[0].items()
        return v == 1 and a[0] == "call" and a[1] == "llfree::local::LocalTree::free"
    tf = lby.get("free_frames", [])
    cf = lby.get("classes.free_frames", [])
    ca = lby.get("classes.alloc_frames", [])
    rep.check(len(tf) == 1 and local_free(tf[0][1]), rule, "Locals::stats|total", "free_frames += reservation.free()",
              "Locals::stats total is fed by %s" % ([x[1] for x in tf],), b.span)
    rep.check(len(cf) == 1 and local_free(cf[0][1]), rule, "Locals::stats|class-free", "classes[class].free_frames += reservation.free()",
              "Locals::stats per-class free is fed by %s" % ([x[1] for x in cf],), b.span)
    lft = lby.get("free_trees", [])
    good = False
    if len(lft) == 1 and lft[0][1] is not None and lft[0][1][1] == 0 and len(lft[0][1][0]) == 1:
        (a, v), = lft[0][1][0].items()
        good = v == 1 and a[0] == "bin" and a[1] == "Div" and a[3] == ("c", TF) and a[2][0] == "call" and a[2][1] == "llfree::local::LocalTree::free"
    rep.check(good, rule, "Locals::stats|free_trees", "free_trees += reservation.free() / TREE_FRAMES",
              "Locals::stats counts entirely free reserved trees as %s" % ([x[1] for x in lft],), b.span)
    if tf and cf:
        # same control conditions (only `present()`), so the per-class free counts sum to the total
        c1 = {(T.show(tm.operand(b.term(s)["discr"])), lib.bool_edge_polarity(b, s, d)) for s, d in lib.controlling_edges(b, tf[0][0])}
        c2 = {(T.show(tm.operand(b.term(s)["discr"])), lib.bool_edge_polarity(b, s, d)) for s, d in lib.controlling_edges(b, cf[0][0])}
        rep.check(c1 == c2, rule, "Locals::stats|same-condition", "total and per-class free are updated under the same condition",
                  "total and per-class free counts are updated under different conditions: %s vs %s" % (sorted(c1), sorted(c2)), cf[0][2])
    # ---- (3) merge
    fn = "<llfree::llfree::LLFree as llfree::Alloc>::tree_stats"
    b = lib.need_body(prog, fn)
    rep.saw(fn)
    tm = T.Terms(b, prog)
    allb = set(range(b.nblocks()))
    macc = accumulations(b, tm, allb)
    merged = {}
    for bi, si, names, amt, span, p in macc:
        dst = ("classes." if any(e["k"] == "deref" for e in (p.get("p") or [])) else "") + names[-1]
        srcs = []
        if amt is not None:
            for a, v in amt[0].items():
                fld = a[2] if a[0] == "f" else None
                srcs.append((fld, v))
        merged[dst] = (srcs, span)
    for dst, (srcs, span) in sorted(merged.items()):
        want = dst.split(".")[-1]
        good = len(srcs) == 1 and srcs[0][0] == want and srcs[0][1] in (1, -1)
        rep.check(good, rule, "tree_stats|merge|%s" % dst, "%s %s= local %s" % (dst, "+" if srcs and srcs[0][1] == 1 else "-", want),
                  "merge of %s uses %s" % (dst, srcs), span)
    # ---- (3b) the merge visits every class and adds element to corresponding element
    mloops = loop_info(b)
    if len(mloops) != 1:
        rep.violation(rule, "tree_stats|merge-loop", "expected one per-class merge loop, found %d" % len(mloops), b.span)
    else:
        h, blocks, exits = mloops[0]
        info = iter_loop_header(b, tm, h)
        ok, why = exits_only_by_exhaustion(b, tm, h, blocks, exits)
        rep.check(ok, rule, "tree_stats|merge-loop|exhaustive", "the per-class merge visits every class",
                  "tree_stats: %s: the classes after that point keep the tree-array numbers only, so the per-class free counts no "
                  "longer sum to the (unconditionally merged) total" % why, b.term(h)["span"])
        inloop = [x for x in macc if x[0] in blocks]
        rep.check(len(inloop) >= 2, rule, "tree_stats|merge-loop|accumulations", "%d per-class accumulations in the loop" % len(inloop),
                  "the per-class merge loop has %d accumulations (free_frames and alloc_frames expected)" % len(inloop), b.term(h)["span"])
        for bi, si, names, amt, span, p in inloop:
            if info:
                rep.check(unconditional_in_iteration(b, info, h, blocks, bi), rule, "tree_stats|merge-loop|%s|unconditional" % names[-1],
                          "merged for every class", "the merge of classes[..].%s is skipped for some classes" % names[-1], span)
            dst = tm.place(p)
            rv = tm.rvalue(b.blocks[bi]["stmts"][si]["rv"])
            src = None
            if rv[0] == "bin" and rv[1].startswith("Add"):
                others = [o for o in (rv[2], rv[3]) if T.canon(o) != T.canon(dst)]
                src = others[0] if len(others) == 1 else None
            pair_ok, pdesc = _same_element(dst, src, prog)
            rep.check(pair_ok, rule, "tree_stats|merge-loop|%s|same-class" % names[-1], pdesc,
                      "classes[..].%s is merged across different classes or the pairing cannot be established: %s" % (names[-1], pdesc), span)
        if info:
            src = info[0][2][0]
            dom_ok, ddesc = _merge_domain(src, prog)
            rep.check(dom_ok, rule, "tree_stats|merge-loop|domain", ddesc, "the merge loop does not range over all classes: " + ddesc,
                      b.term(h)["span"])
    # ---- (4) net contribution of a reservation to Q
    sign = {dst: (srcs[0][1] if len(srcs) == 1 else None) for dst, (srcs, _) in merged.items()}
    contrib = ({}, 0)
    for key, inst in (("classes.free_frames", cf), ("classes.alloc_frames", ca)):
        sg = sign.get(key)
        for bi, amt, span, p in inst:
            if amt is not None and sg is not None:
                contrib = T._lin_add(contrib, amt, sg)
    rep.check(contrib == ({}, 0), rule, "Locals::stats|reservation-counted-twice",
              "a reservation's net contribution to sum(free+alloc) is 0",
              "a local reservation adds its counter l to classes[c].free_frames while Trees::stats already counts the reserved tree's "
              "whole slot (g free, TREE_FRAMES - g allocated): sum over classes of free+alloc = trees*TREE_FRAMES + sum(l) whenever "
              "a reservation holds free frames", cf[0][2] if cf else b.span)
    # after a drain no reservation is left to be counted a second time: drain visits every slot
    from props import c10
    c10.r_drain_total(rep, prog)


def r_locals_layout(rep, prog):
    """The per-class slot arrays are carved out of one buffer: array k starts where arrays 0..k-1 end. If two arrays overlap, one
    reservation is present in two classes and Locals::stats counts its tree twice."""
    rule = "R-LOCALS-LAYOUT"
    rep.rule(rule, "Locals::new: the offset handed to OffsetSlice::new is a running sum that starts at 0 and advances by "
                   "size_of_slice::<Local>(count) of the very slice just placed")
    fn = "llfree::local::Locals::new"
    b = lib.need_body(prog, fn)
    rep.saw(fn)
    tm = T.Terms(b, prog)
    sites = lib.find_calls(b, "llfree::util::OffsetSlice::new")
    if not sites:
        rep.check(True, rule, "Locals::new|running-offset", "undecided: no OffsetSlice::new (another layout scheme)")
        rep.note("%s: Locals::new does not use OffsetSlice::new; disjointness of the per-class arrays is undecided" % rule)
        return
    for bi, t in sites:
        off_op, cnt_op = t["args"][0], t["args"][1]
        cnt = T.canon(tm.operand(cnt_op))
        good, why = False, ""
        if off_op["k"] in ("copy", "move") and not (off_op["place"].get("p")):
            l = off_op["place"]["l"]
            # follow a plain copy chain back to the accumulator
            seen = set()
            while l not in seen:
                seen.add(l)
                ds = b.whole_defs(l)
                if len(ds) == 1 and ds[0][1] != "term":
                    rv = b.blocks[ds[0][0]]["stmts"][ds[0][1]]["rv"]
                    if rv["k"] == "use" and rv["op"]["k"] in ("copy", "move") and not rv["op"]["place"].get("p"):
                        l = rv["op"]["place"]["l"]
                        continue
                break
            ds = b.whole_defs(l)
            init = step = 0
            bad = 0
            for dbi, dsi in ds:
                if dsi == "term":
                    bad += 1
                    continue
                rv = b.blocks[dbi]["stmts"][dsi]["rv"]
                tt = T.Terms(b, prog).rvalue(rv)
                if tt[0] == "c" and tt[1] == 0:
                    init += 1
                    continue
                tt = T.canon(tt)
                if tt[0] == "bin" and tt[1] == "Add":
                    parts = [tt[2], tt[3]]
                    sz = [p for p in parts if p[0] == "call" and p[1] == "llfree::util::size_of_slice"]
                    acc = [p for p in parts if p[0] == "l"]
                    if len(sz) == 1 and len(acc) == 1 and sz[0][2] == (cnt,):
                        step += 1
                        continue
                bad += 1
            good = init == 1 and step == 1 and bad == 0
            why = "offset has %d initialisations to 0, %d steps by size_of_slice(count), %d other definitions" % (init, step, bad)
        else:
            why = "the offset is %s, not a running sum" % T.show(tm.operand(off_op))[:120]
        rep.check(good, rule, "Locals::new|running-offset", "offset = sum of the sizes of the arrays placed before",
                  "the start of a class's slot array is not the end of the arrays placed before it (%s): arrays of classes with "
                  "different slot counts overlap, one reservation appears under two classes" % why, t["span"])


_run_c14 = run


def run(rep, programs):  # noqa: F811
    _run_c14(rep, programs)
    r_locals_layout(rep, programs["core"])


EXPLANATION = EXPLANATION + (
    ' R-LOCALS-LAYOUT: the per-class slot arrays are placed at a running offset that advances by the size of the array just placed, so no slot belongs to two classes.'
)
