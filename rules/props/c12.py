"""C12 — search within one tree finds any aligned free block of the requested order.
Claimed clause: the search loops cover their whole domain and give up only by exhaustion
(R-SEARCH-LOOPS). DESIGN.md §4 C12."""
import cfg
import lib
import terms as T
from facts import callee_name
from pathsens import PathSens
from props.c10 import loop_info, iter_loop_header
import multicas
from props import c01

KINDS = ["core"]
LEVEL_TEXT = ("loop-domain rule over rustc MIR of the four search loops of the lower level: decides that each loop ranges over its whole "
              "domain (evaluated constants per compile-time configuration), visits (start + i) % domain, and leaves only by exhaustion or "
              "with a claimed block; that the per-row bit trick finds a block is C23's clause, modular-permutation arithmetic is assumed")
TECHNIQUE = "iterator-domain terms with evaluated constants, index-shape check, loop-exit analysis, multi-CAS rollback range analysis"
EXPLANATION = (
    "R-SEARCH-LOOPS, for Lower::get (huge-order loop and base-order loop), Bitfield::set_first_zeros and Bitfield::set_first_zero_rows: "
    "(a) the iteration domain is the full one: 0..TREE_HUGE (stepped by 2^(order-HUGE_ORDER) for huge orders), 0..self.data.len(), "
    "self.data.chunks(num_rows) over the whole row array; (b) the visited element is (hint + i) % domain with the same domain, so every "
    "element is visited once; (c) the loop is left only by iterator exhaustion or by `return Ok(..)`; a failed attempt continues with "
    "the next element. A shortened range or an early exit makes a tree whose only free aligned block is in the last row / last huge "
    "frame (or before the hint) report out-of-memory. R-AON / R-UNDO-RANGE (shared with C01/C02): a search attempt that takes "
    "several words either keeps all of them or rolls back exactly the ones it took, so a failed attempt leaves no block marked and a "
    "success marks exactly the returned block."
)


def check_loop(rep, rule, b, tm, prog, key, h, blocks, exits, want_lo, want_hi_desc, hi_ok, index_ok_fn, allow_step=False):
    info = iter_loop_header(b, tm, h)
    if info is None:
        rep.violation(rule, key + "|iterator", "search loop is not an iterator loop", b.term(h).get("span"))
        return
    src = info[0][2][0]
    # (a) domain
    rng = [x for x in T.walk(src) if x[0] == "agg" and x[1].startswith("adt:core::ops::range::Range::Range")]
    steps = [x for x in T.walk(src) if x[0] == "call" and x[1].endswith("Iterator::step_by")]
    trunc = [x[1].split("::")[-1] for x in T.walk(src) if x[0] == "call" and x[1].split("::")[-1] in ("take", "skip", "take_while", "skip_while", "filter")]
    if rng:
        lo, hi = rng[0][2]
        lo_v = T.const_val(T.strip_casts(lo))
        rep.check(lo_v == want_lo, rule, key + "|domain-start", "range starts at %d" % want_lo,
                  "search range starts at %s instead of %d: elements before it are never searched" % (T.show(lo), want_lo), b.term(h)["span"])
        rep.check(hi_ok(hi), rule, key + "|domain-end", "range ends at " + want_hi_desc,
                  "search range ends at %s instead of %s" % (T.show(hi), want_hi_desc), b.term(h)["span"])
    else:
        rep.check(hi_ok(src), rule, key + "|domain", "iterates " + want_hi_desc, "search iterates %s, expected %s" % (T.show(src), want_hi_desc), b.term(h)["span"])
    rep.check(not trunc and (allow_step or not steps), rule, key + "|domain-untruncated", "no take/skip/filter on the domain",
              "search domain is truncated by %s" % (trunc + [s[1].split('::')[-1] for s in steps]), b.term(h)["span"])
    # (b) index
    ok, detail = index_ok_fn(info)
    rep.check(ok, rule, key + "|index", "visits (hint + i) % domain: " + detail, "visited element is not (hint + i) %% domain: " + detail, b.term(h)["span"])
    # (c) exits
    nb, none_t = info[1], info[2]
    ps = PathSens(b, prog)
    for a, d in exits:
        if a == nb and d in none_t:
            continue
        r = cfg.reachable_from(b, d)
        rets = [x for x in r if b.term(x)["k"] == "return"]
        if not rets:
            continue  # panic / diverging
        # every return reached after taking this exit edge must be a success return
        okv = 0 if b.local_ty(0).startswith("core::result::Result<") else 1
        bad = False
        n_ret = 0
        for n_, (bi_, env_) in enumerate(ps.node_list):
            if bi_ != a:
                continue
            for s_, _lab in ps.succs.get(n_, []):
                if ps.block_of(s_) != d:
                    continue
                seen = set()
                work = [s_]
                while work:
                    x = work.pop()
                    if x in seen:
                        continue
                    seen.add(x)
                    if b.term(ps.block_of(x))["k"] == "return":
                        n_ret += 1
                        if ps.ret_discr(x) != okv:
                            bad = True
                        continue
                    if ps.block_of(x) == h:
                        continue
                    for y, _l in ps.succs.get(x, []):
                        work.append(y)
        rep.check(not bad, rule, key + "|exit", "left early only with a claimed block (return Ok; %d return states)" % n_ret,
                  "the search loop can be left through bb%d -> bb%d without a claimed block: later elements are not searched" % (a, d),
                  b.term(a).get("span"))


def run(rep, programs):
    prog = programs["core"]
    rule = "R-SEARCH-LOOPS"
    rep.rule(rule, "search loops range over the whole domain, visit (hint + i) % domain, exit only by exhaustion or return Ok")
    consts = prog.crate("llfree").consts
    TREE_HUGE = prog.crate("llfree").const("llfree::TREE_HUGE")
    ROWS = prog.crate("llfree").const("llfree::bitfield::ROWS")
    n = 0
    # ---- Lower::get
    fn = "llfree::lower::Lower::get"
    b = lib.need_body(prog, fn)
    rep.saw(fn)
    tm = T.Terms(b, prog)
    loops = loop_info(b)
    for h, blocks, exits in loops:
        info = iter_loop_header(b, tm, h)
        if info is None:
            rep.violation(rule, "%s|loop" % fn, "a loop in Lower::get is not an iterator loop", b.term(h).get("span"))
            continue
        src = info[0][2][0]
        stepped = any(x[0] == "call" and x[1].endswith("Iterator::step_by") for x in T.walk(src))
        key = "%s|%s" % (fn, "huge-order-loop" if stepped else "base-order-loop")
        n += 1

        def hi_ok(hi):
            return T.const_val(T.strip_casts(hi)) == TREE_HUGE

        def index_ok(info, stepped=stepped, blocks=blocks):
            # the claim inside the loop addresses children[(child_off + i) % TREE_HUGE]
            claims = [(bi, t) for bi, t in b.calls() if bi in blocks and callee_name(t["callee"]) in (
                "llfree::atomic::Atom::try_update", "<slice as llfree::atomic::AtomicSlice>::compare_exchange_all")]
            if not claims:
                return False, "no claim in loop"
            recv = tm.operand(claims[0][1]["args"][0])
            rems = [x for x in T.walk(recv) if x[0] == "bin" and x[1] == "Rem"]
            for r in rems:
                if T.const_val(r[3]) != TREE_HUGE:
                    continue
                add = r[2]
                if add[0] == "bin" and add[1] == "Add":
                    parts = [add[2], add[3]]
                    has_i = any(any(y[0] == "call" and y[1].endswith("::next") for y in T.walk(p)) for p in parts)
                    has_hint = any(T.mentions_call(p, "llfree::lower::HugeId::child_idx") and T.mentions_param(p, "start") for p in parts)
                    if has_i and has_hint:
                        return True, T.show(r)[:120]
            return False, T.show(recv)[:160]
        if stepped:
            # step = 2^(order - HUGE_ORDER)
            st = [x for x in T.walk(src) if x[0] == "call" and x[1].endswith("Iterator::step_by")][0]
            l = T.linear(st[2][1])
            rep.check(l is not None and l[1] == 0 and len(l[0]) == 1 and list(l[0].keys())[0][0] == "pow2", rule, key + "|step",
                      "steps by 2^(order - HUGE_ORDER)", "huge-order loop steps by " + T.show(st[2][1]), b.term(h)["span"])
        check_loop(rep, rule, b, tm, prog, key, h, blocks, exits, 0, "TREE_HUGE=%d" % TREE_HUGE, hi_ok, index_ok, allow_step=stepped)
    rep.floor(rule, "search loops in Lower::get", len(loops), 2)
    # the bit search is started at the hint row and for the right order
    sz = lib.find_calls(b, "llfree::bitfield::Bitfield::set_first_zeros")
    if len(sz) == 1:
        a = [T.canon(tm.operand(x)) for x in sz[0][1]["args"]]
        rep.check(a[1] == ("p", "start") and a[2] == ("p", "order"), rule, "%s|bit-search-args" % fn, "set_first_zeros(start, order)",
                  "set_first_zeros is called with (%s, %s)" % (a[1], a[2]), sz[0][1]["span"])
    # ---- set_first_zeros
    fn = "llfree::bitfield::Bitfield::set_first_zeros"
    b = lib.need_body(prog, fn)
    rep.saw(fn)
    tm = T.Terms(b, prog)
    loops = loop_info(b)
    rep.floor(rule, "search loops in set_first_zeros", len(loops), 1)
    for h, blocks, exits in loops:
        n += 1

        def hi_ok(hi):
            hi = T.strip_casts(hi)
            if T.const_val(hi) == ROWS:
                return True
            return hi[0] == "call" and hi[1] == "slice::len" and any(x[0] == "f" and x[3] == "data" for x in T.walk(hi)) or (
                hi[0] == "un" and hi[1] == "PtrMetadata")

        def index_ok(info, blocks=blocks):
            ups = [(bi, t) for bi, t in b.calls_to("llfree::atomic::Atom::try_update") if bi in blocks]
            if not ups:
                return False, "no try_update in loop"
            recv = tm.operand(ups[0][1]["args"][0])
            # row(self, RowId(huge_idx(RowId(i + huge_idx(start_row)))))
            hidx = [x for x in T.walk(recv) if x[0] == "call" and x[1] == "llfree::bitfield::RowId::huge_idx"]
            for hx in hidx:
                inner = hx[2][0]
                adds = [y for y in T.walk(inner) if y[0] == "bin" and y[1] == "Add"]
                for add in adds:
                    parts = [add[2], add[3]]
                    has_i = any(any(y[0] == "call" and y[1].endswith("::next") for y in T.walk(p)) for p in parts)
                    has_hint = any(T.mentions_param(p, "start_row") for p in parts)
                    if has_i and has_hint:
                        return True, "huge_idx(i + start_row.huge_idx())"
            # arithmetic form: index = X - ROWS * (X / ROWS) with X = loop counter + something derived from the hint row
            rows_ = [x for x in T.walk(recv) if x[0] == "call" and x[1] == "llfree::bitfield::Bitfield::row"]
            if rows_:
                ll = lib.index_lin(prog, rows_[0][2][1])
                if ll is not None:
                    for atom, coef in ll[0].items():
                        if coef == -ROWS and atom[0] == "bin" and atom[1] == "Div" and atom[3] == ("c", ROWS):
                            rest = ({k: v for k, v in ll[0].items() if k != atom}, ll[1])
                            if lib.lin_key(rest) == atom[2]:
                                cnt = [k for k, v in rest[0].items() if v == 1 and any(
                                    isinstance(y, tuple) and y and y[0] == "call" and str(y[1]).endswith("::next") for y in T.walk(k))]
                                hint = any(any(isinstance(y, tuple) and y and y[0] == "p" and y[-1] == "start_row" for y in T.walk(k))
                                           for k in rest[0])
                                if cnt and hint:
                                    return True, "(i + f(start_row)) % ROWS"
            return False, T.show(recv)[:160]
        check_loop(rep, rule, b, tm, prog, fn + "|row-loop", h, blocks, exits, 0, "self.data.len() (= ROWS = %d)" % ROWS, hi_ok, index_ok)
    # huge_idx is `% ROWS`
    hb = lib.need_body(prog, "llfree::bitfield::RowId::huge_idx")
    htm = T.Terms(hb, prog)
    rets = [htm.rvalue(rv) for bi, si, rv in lib.assignments_to_return(hb) if si != "term"]
    rep.check(bool(rets) and rets[0][0] == "bin" and rets[0][1] == "Rem" and T.const_val(rets[0][3]) == ROWS, rule,
              "RowId::huge_idx|mod-rows", "huge_idx = self.0 % ROWS", "huge_idx is " + (T.show(rets[0]) if rets else "?"), hb.span)
    # order dispatch: orders above 6 go to the multi-row search
    disp = lib.find_calls(b, "llfree::bitfield::Bitfield::set_first_zero_rows")
    rep.check(len(disp) == 1, rule, "%s|multi-row-dispatch" % fn, "orders > 6 use set_first_zero_rows", "no dispatch to set_first_zero_rows", b.span)
    if disp:
        ces = lib.controlling_edges(b, disp[0][0])
        okd = False
        for s, d in ces:
            c = tm.operand(b.term(s)["discr"])
            cmp_ = lib.normalize_cmp(c) if c[0] == "bin" else None
            pol = lib.bool_edge_polarity(b, s, d)
            if cmp_ and pol is not None:
                lhs, rel, rhs = cmp_ if pol else lib.negate_rel(cmp_)
                # ilog2(64) < order
                lv = T.strip_casts(lhs)
                if rel == "lt" and T.canon(rhs) == ("p", "order") and lv[0] == "call" and lv[1] == "usize::ilog2" and T.const_val(lv[2][0]) == 64:
                    okd = True
        rep.check(okd, rule, "%s|multi-row-threshold" % fn, "dispatch iff order > log2(64)", "multi-row dispatch threshold changed", disp[0][1]["span"])
    # ---- set_first_zero_rows
    fn = "llfree::bitfield::Bitfield::set_first_zero_rows"
    b = lib.need_body(prog, fn)
    rep.saw(fn)
    tm = T.Terms(b, prog)
    loops = sorted(loop_info(b), key=lambda x: -len(x[1]))
    if not loops:
        rep.violation(rule, fn + "|loop", "no search loop", b.span)
    else:
        h, blocks, exits = loops[0]
        n += 1

        def hi_ok(src):
            ch = [x for x in T.walk(src) if x[0] == "call" and x[1] == "slice::chunks"]
            if not ch:
                return False
            whole = any(x[0] == "f" and x[3] == "data" for x in T.walk(ch[0][2][0])) and not any(
                x[0] == "subslice" or (x[0] == "call" and x[1].endswith("::index")) for x in T.walk(ch[0][2][0]))
            l = T.linear(ch[0][2][1])
            size_ok = l is not None and l[1] == 0 and len(l[0]) == 1 and list(l[0].keys())[0][0] == "pow2"
            return whole and size_ok

        def index_ok(info):
            # result row = i * num_rows
            for bi, si, rv in lib.assignments_to_return(b):
                if si != "term" and rv["k"] == "aggregate" and rv["kind"].get("variant") == "Ok":
                    t = tm.operand(rv["ops"][0])
                    if t[0] == "agg" and t[2]:
                        m = t[2][0]
                        if m[0] == "bin" and m[1].startswith("Mul"):
                            parts = [m[2], m[3]]
                            has_i = any(any(y[0] == "call" and y[1].endswith("::next") for y in T.walk(p)) for p in parts)
                            return has_i, "RowId(i * num_rows)"
            return False, "result row is not i * num_rows"
        check_loop(rep, rule, b, tm, prog, fn + "|chunk-loop", h, blocks, exits, 0, "self.data.chunks(2^(order-6)) over all rows", hi_ok, index_ok)
    rep.floor(rule, "search loops checked", n, 4)
    # a failed multi-word attempt leaves nothing marked; a success marks exactly the block
    c01.r_aon(rep, prog)
    multicas.check_undo_range(rep, prog, "R-UNDO-RANGE", lib.need_body)
    # a failed attempt gives the huge-entry counter back: the base-order search trusts that counter before it looks at the bits
    from props import c04
    c04.r_balance(rep, prog)
    # the per-row search itself: a free aligned block in a row is found (exact zero tests, all aligned positions)
    from props import c23
    c23.run(rep, programs)
    c01.r_huge_coord(rep, prog)       # counter and bits that are changed together belong to the same huge frame
    c01.r_units(rep, prog)            # row, huge and frame numbers are not confused when the search result is turned into a frame
