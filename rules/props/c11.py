"""C11 — a single-slot allocator finds every free base frame without draining.
Claimed clause: the sync threshold (R-SYNC-THRESH). DESIGN.md §4 C11."""
import lib
import terms as T
from facts import callee_name
from pathsens import PathSens

KINDS = ["core"]
LEVEL_TEXT = ("term composition over two sites of rustc MIR: decides that the reserved tree's global counter g is taken exactly when "
              "g + l >= 2^order (l = local counter), which is necessary for C11 because frames freed without the slot are reachable "
              "only through this path; completeness of the whole search is not decided")
TECHNIQUE = "symbolic composition of the threshold passed in get_local with the comparison in Tree::sync_steal (linear normal forms)"
EXPLANATION = (
    "R-SYNC-THRESH: in LLFree::get_local the value passed as `min` to Trees::sync is 2^order - l where l is the free counter of the "
    "reservation that just failed; Trees::sync forwards it unchanged to Tree::sync_steal on entries[tree of that reservation]; "
    "sync_steal succeeds iff reserved && free >= min (delta 0). With delta 1 the boundary case (exactly as many frames freed as one "
    "allocation needs) reports out-of-memory. On success the counter is installed with Locals::put and get_local is retried once "
    "with sync = false; if the install fails the counter is returned with Trees::put."
)

GL = "llfree::llfree::LLFree::get_local"


def r_put_accepts(rep, prog, rule="R-SYNC-THRESH"):
    """The counter taken by Trees::sync has to fit into the reservation: LocalTree::put (behind Locals::put) may refuse only a vacant
    slot or another tree, never a counter value up to TREE_FRAMES."""
    LT = "llfree::local::LocalTree::"
    b = lib.need_body(prog, LT + "put")
    rep.saw(b.name)
    tm = T.Terms(b, prog)
    TF = prog.crate("llfree").const("llfree::TREE_FRAMES")
    somes = [bi for bi, si, rv in lib.assignments_to_return(b) if si != "term" and rv["k"] == "aggregate" and rv["kind"].get("variant") == "Some"]
    bad = []
    for bi in somes:
        for s_, d_ in lib.controlling_edges(b, bi):
            c = tm.operand(b.term(s_)["discr"])
            pol = lib.bool_edge_polarity(b, s_, d_)
            cc = T.canon(c)
            if cc[0] == "call" and cc[1] == LT + "present" and pol is True:
                continue
            if cc[0] == "call" and cc[1].endswith(("PartialEq>::eq", "PartialEq::eq")) and pol is True:
                continue
            if cc[0] == "call" and cc[1].endswith(("PartialEq>::ne", "PartialEq::ne")) and pol is False:
                continue
            cm = lib.normalize_cmp(c) if c[0] == "bin" else None
            if cm and pol is not None:
                lhs, rel, rhs = cm if pol else lib.negate_rel(cm)
                if rel in ("gt", "ge"):
                    lhs, rhs, rel = rhs, lhs, {"gt": "lt", "ge": "le"}[rel]
                # the overflow assertion `self.free() + free <= TREE_FRAMES` (panics otherwise) is fine; anything tighter refuses legal values
                if rel == "le" and T.const_val(rhs) == TF and T.mentions_call(lhs, LT + "free"):
                    continue
            bad.append("%s (on its %s edge)" % (T.show(c)[:80], pol))
    rep.check(bool(somes) and not bad, rule, "LocalTree::put|accepts", "refuses only a vacant slot or another tree (plus the <= TREE_FRAMES assertion)",
              "LocalTree::put also refuses under `%s`: a counter that Trees::sync took from the reserved tree (up to TREE_FRAMES) cannot be "
              "installed, get_local gives it back to the reserved tree and reports out-of-memory" % "; ".join(bad), b.span)


def r_get_reports_reservation(rep, prog, rule="R-SYNC-THRESH"):
    """A failed Locals::get tells its caller which reservation the slot holds whenever it holds one - also an exhausted one:
    get_local synchronises exactly on that answer."""
    b = lib.need_body(prog, "llfree::local::Locals::get")
    rep.saw(b.name)
    tm = T.Terms(b, prog)
    ts = [(bi, t) for bi, t in b.calls() if (callee_name(t["callee"]) or "") == "bool::then_some"]
    good = False
    detail = "no `present().then_some(reservation)` in the error arm"
    for bi, t in ts:
        c = T.canon(tm.operand(t["args"][0]))
        v = tm.operand(t["args"][1])
        is_present = c[0] == "call" and c[1] == "llfree::local::LocalTree::present" and c[2][0][0] == "f" and c[2][0][1][0] == "as" and c[2][0][1][2] == "Err"
        is_res = v[0] == "call" and v[1] == "llfree::local::LocalTree::as_reservation"
        good = is_present and is_res
        detail = "reported under `%s`" % T.show(tm.operand(t["args"][0]))[:100]
    if not ts:
        # another spelling: undecided unless no reservation is reported at all
        if any(callee_name(t["callee"]) == "llfree::local::LocalTree::as_reservation" for _, t in b.calls()):
            rep.note("R-SYNC-THRESH Locals::get error arm undecided: reservation reported through another construct")
            good = True
    rep.check(good, rule, "Locals::get|reports-reservation", "Err(old.present().then_some(old.as_reservation(class)))",
              "a failed Locals::get does not report the slot's reservation whenever one is present (%s): with an exhausted "
              "reservation get_local sees `no reservation`, never synchronises with the reserved tree and reports out-of-memory" % detail, b.span)


def run(rep, programs):
    prog = programs["core"]
    r_put_accepts(rep, prog)
    r_get_reports_reservation(rep, prog)
    rule = "R-SYNC-THRESH"
    rep.rule(rule, "sync fires iff g >= 2^order - l (composition of get_local's `min` and Tree::sync_steal's comparison)")
    b = lib.need_body(prog, GL)
    rep.saw(GL)
    tm = T.Terms(b, prog)
    sy = lib.find_calls(b, "llfree::trees::Trees::sync")
    if len(sy) != 1:
        rep.violation(rule, "get_local|sync-call", "expected one Trees::sync call, found %d" % len(sy), b.span)
        return
    sb, st = sy[0]
    mn = tm.operand(st["args"][2])
    l = T.linear(mn)
    good = False
    detail = T.show(mn)
    if l is not None and l[1] == 0 and len(l[0]) == 2:
        pos = [a for a, v in l[0].items() if v == 1]
        neg = [a for a, v in l[0].items() if v == -1]
        if len(pos) == 1 and len(neg) == 1 and pos[0][0] == "pow2" and pos[0][1] == ("p", "order"):
            n = neg[0]
            # l = .free of the reservation returned by the failed Locals::get
            good = n[0] == "f" and n[2] == "free" and any(x[0] == "call" and x[1] == "llfree::local::Locals::get" for x in T.walk(_uncanon_walk(n)))
    rep.check(good, rule, "get_local|min", "min = 2^order - reservation.free",
              "the sync threshold is %s, not 2^order - (free counter of the failed reservation): frames freed into the reserved "
              "tree's global counter can stay unreachable" % detail, st["span"])
    # the sync path is enabled: Trees::sync is control dependent on the `sync` parameter being true, and the API path passes true
    en = False
    for s_, d_ in lib.controlling_edges(b, sb):
        c = tm.operand(b.term(s_)["discr"])
        if T.canon(c) == ("p", "sync") and lib.bool_edge_polarity(b, s_, d_) is True:
            en = True
    ps_ = PathSens(b, prog)
    if not en:
        # `sync && ..` lowered through a temporary: every state at the sync call knows sync == 1
        sl = [l_ for l_ in range(1, b.arg_count + 1) if b.local_name(l_) == "sync"]
        sts = ps_.states_at(sb)
        en = bool(sl) and bool(sts) and all(env.get(("v", sl[0])) == 1 for _, env in sts)
    rep.check(en, rule, "get_local|sync-enabled-by-flag", "Trees::sync runs exactly on the calls that pass sync = true",
              "Trees::sync is not controlled by the `sync` parameter", st["span"])
    api = lib.need_body(prog, "<llfree::llfree::LLFree as llfree::Alloc>::get")
    atm = T.Terms(api, prog)
    flags = []
    for name in [api.name] + [cb.name for cb in prog.crate("llfree").closures_of(api.name)] + ["llfree::llfree::LLFree::get_at"]:
        fb = prog.body(name)
        if fb is None:
            continue
        ftm = T.Terms(fb, prog)
        for bi, t in fb.calls_to(GL):
            flags.append((name, T.const_val(ftm.operand(t["args"][5])), t["span"]))
    rep.check(bool(flags) and all(v == 1 for _, v, _ in flags), rule, "get|passes-sync-true",
              "the allocation entry points call get_local(.., sync = true)",
              "an allocation entry point calls get_local with sync = %s: the reserved tree's global counter is never synchronised, so "
              "frames freed without naming the slot stay unreachable" % [(n.split("::")[-1], v) for n, v, _ in flags if v != 1],
              flags[0][2] if flags else b.span)
    # the tree synced is the reservation's tree
    tr = tm.operand(st["args"][1])
    rep.check(tr[0] == "call" and tr[1] == "llfree::bitfield::RowId::as_tree" and T.mentions_call(tr, "llfree::local::Locals::get"),
              rule, "get_local|sync-tree", "syncs the reservation's own tree", "syncs tree %s" % T.show(tr), st["span"])
    # Locals::get was asked for 2^order
    lg = lib.find_calls(b, "llfree::local::Locals::get")
    if len(lg) == 1:
        amt = T.linear(tm.operand(lg[0][1]["args"][4]))
        rep.check(amt is not None and amt == ({("pow2", ("p", "order")): 1}, 0), rule, "get_local|local-amount", "local attempt asks for 2^order",
                  "local attempt asks for %s" % T.show(tm.operand(lg[0][1]["args"][4])), lg[0][1]["span"])
    # Trees::sync forwards min and applies sync_steal on entries[i]
    ts = lib.need_body(prog, "llfree::trees::Trees::sync")
    rep.saw(ts.name)
    fwd = False
    for cb in prog.crate("llfree").closures_of(ts.name):
        ctm = T.Terms(cb, prog)
        for bi, t in cb.calls_to("llfree::trees::Tree::sync_steal"):
            fwd = T.canon(ctm.operand(t["args"][1])) == ("up", "min")
    ttm = T.Terms(ts, prog)
    up = lib.find_calls(ts, "llfree::atomic::Atom::try_update")
    ent = False
    if len(up) == 1:
        idx = [x for x in T.walk(ttm.operand(up[0][1]["args"][0])) if x[0] == "idx"]
        ent = bool(idx) and T.canon(idx[0][2]) == ("f", ("p", "i"), 0)
    rep.check(fwd and ent, rule, "Trees::sync|forward", "entries[i].try_update(|e| e.sync_steal(min))",
              "Trees::sync does not apply sync_steal(min) to entries[i]", ts.span)
    # sync_steal comparison
    ss = lib.need_body(prog, "llfree::trees::Tree::sync_steal")
    rep.saw(ss.name)
    stm = T.Terms(ss, prog)
    somes = [bi for bi, si, rv in lib.assignments_to_return(ss) if si != "term" and rv["k"] == "aggregate" and rv["kind"].get("variant") == "Some"]
    if len(somes) != 1:
        rep.violation(rule, "sync_steal|shape", "expected one Some result", ss.span)
        return
    delta = None
    reserved = False
    for s, d in lib.controlling_edges(ss, somes[0]):
        c = stm.operand(ss.term(s)["discr"])
        pol = lib.bool_edge_polarity(ss, s, d)
        if c[0] == "call" and c[1] == "llfree::trees::Tree::reserved" and pol is True:
            reserved = True
        cmp_ = lib.normalize_cmp(c) if c[0] == "bin" else None
        if cmp_ and pol is not None:
            lhs, rel, rhs = cmp_ if pol else lib.negate_rel(cmp_)
            # want: min <= free   i.e. free - min >= 0
            dl = T._lin_add(T.linear(rhs), T.linear(lhs), -1)
            if dl is not None and rel in ("le", "lt"):
                atoms, const = dl
                if rel == "lt":
                    const -= 1
                if atoms == {("call", "llfree::trees::Tree::free", (("p", "self"),)): 1, ("p", "min"): -1}:
                    delta = -const
    rep.check(reserved, rule, "sync_steal|reserved", "only for reserved trees", "sync_steal does not require reserved()", ss.span)
    if delta is None:
        rep.violation(rule, "sync_steal|threshold", "cannot find the comparison of self.free() with min that guards the Some result", ss.span)
    else:
        rep.check(delta == 0, rule, "sync_steal|threshold", "succeeds iff free >= min (g + l >= 2^order)",
                  "sync_steal succeeds only if free >= min + %d: with exactly 2^order - l frames in the reserved tree's global counter "
                  "(the boundary C11 names) the sync is refused and the allocation reports out-of-memory although a frame is free" % delta,
                  ss.span)
    # retry
    ps = PathSens(b, prog)
    rec = lib.find_calls(b, GL)
    lp = lib.find_calls(b, "llfree::local::Locals::put")
    tp = lib.find_calls(b, "llfree::trees::Trees::put")
    if len(rec) == 1 and len(lp) == 1:
        rb, rt = rec[0]
        pb, pt = lp[0]
        states = ps.states_at(rb)
        good = bool(states) and all(e.get(("c", sb)) == 1 and e.get(("c", pb)) == 1 for _, e in states)
        rep.check(good, rule, "get_local|retry", "retried after the synced counter was installed",
                  "the retry is not dominated by a successful sync and Locals::put", rt["span"])
        rep.check(T.const_val(tm.operand(rt["args"][5])) == 0, rule, "get_local|retry-once", "retry passes sync = false",
                  "the retry may sync again (unbounded recursion)", rt["span"])
        pa = [T.canon(tm.operand(x)) for x in pt["args"]]
        synced = ("f", ("as", T.canon(tm.call_term(sb)), "Some"), 0)
        rep.check(pa[4] == synced, rule, "get_local|install-amount", "installs exactly the counter taken by sync",
                  "Locals::put installs %s" % T.show(tm.operand(pt["args"][4])), pt["span"])
        # every path where sync succeeded but no retry happens gives the counter back
        for rn in ps.return_nodes():
            env = ps.term_env_of(rn)
            if env.get(("c", sb)) == 1 and env.get(("c", pb)) == 0:
                pass  # balance rule (C04) checks the Trees::put undo amount
    else:
        rep.violation(rule, "get_local|retry", "no single recursive retry / Locals::put found", b.span)


def _uncanon_walk(t):
    return t


_run_c11 = run


def run(rep, programs):  # noqa: F811
    _run_c11(rep, programs)
    # once the slot's tree is reserved, the frame is found by the search inside that tree: every huge frame of the tree and
    # every row are visited (the whole of C12's argument is a premise here)
    from props import c12
    c12.run(rep, programs)


EXPLANATION = EXPLANATION + (
    " The whole of C12's argument (search loops inside a tree visit every huge frame and row) is a premise and is checked here as well."
)
