"""C05 — crash at any point: recovery keeps completed allocations and frees free frames.
Claimed clauses (about recovery itself, for every frame count): R-RECOVER-DOMAIN, R-RECOVER-FLOW,
R-INIT-DISPATCH, R-REBUILD-ORDER. DESIGN.md §4 C05."""
import cfg
import lib
import terms as T
from facts import callee_name
from pathsens import PathSens

KINDS = ["core"]
LEVEL_TEXT = ("index-domain, value-provenance and dominance rules over rustc MIR of the recovery code: decides that recovery "
              "indexes the bitfield array only inside its domain for every frame count, recomputes every counter from the bitfield of "
              "the same huge frame, is reached exactly for Init::Recover, and that the volatile tree array is rebuilt from the "
              "recovered lower level; crash points inside calls are not enumerated")
TECHNIQUE = "index-domain rule (iteration domain vs indexed slice, dominating bound guards), same-selector value provenance, discriminant dispatch"
EXPLANATION = (
    "R-RECOVER-DOMAIN: every Lower::bitfield(..) selector computed in Lower::recover comes from an iteration over self.bitfields or is "
    "dominated by a bound guard against self.frames()/self.bitfields.len() (recover iterates the table domain table_len x TREE_HUGE, "
    "which is longer than ceil(frames/512) whenever the last tree is partial). R-RECOVER-FLOW: the only writes of recover are "
    "fill(false) on the bitfield of a huge-marked entry and store(HugeEntry::new_with(count_zeros(bitfield))) where checks, fill and "
    "count use the same selector, derived from the (table index i, entry index j) of the entry being repaired. R-INIT-DISPATCH: "
    "Lower::new calls recover exactly for Init::Recover, free_all for FreeAll, reserve_all for AllocAll, nothing for None; "
    "NvmAlloc::create maps recover=true to Init::Recover and false to Init::FreeAll. R-REBUILD-ORDER: in LLFree::new a successful "
    "Lower::new dominates Trees::new, whose initialiser is |start| lower.stats_at(FrameId(start), TREE_ORDER).free_frames of that "
    "lower; Trees::new stores Tree::with(tree_init(i * TREE_FRAMES), false, default) in entry i. R-RECOVER-COMPLETE: an entry is "
    "skipped only when its huge frame starts at or beyond frames(); a repair is skipped only when the counted zeros equal the recorded "
    "state. R-SPLIT-ORDER (shared with C03): partial_put_huge fills the bitfield before it clears the huge marker - in the opposite "
    "order a crash between the two writes leaves a non-huge entry over an all-zero bitfield, which recovery turns into 512 free frames."
)

RECOVER = "llfree::lower::Lower::recover"
BITFIELD = "llfree::lower::Lower::bitfield"


def r_recover_domain(rep, prog):
    rule = "R-RECOVER-DOMAIN"
    rep.rule(rule, "recover indexes self.bitfields only inside its domain: selector from an iteration over self.bitfields, or dominated by a bound guard")
    b = lib.need_body(prog, RECOVER)
    rep.saw(RECOVER)
    tm = T.Terms(b, prog)
    sites = lib.find_calls(b, BITFIELD)
    direct = []
    for bi, si, s in b.stmts():
        if s["k"] == "assign":
            for o in lib.operands_of_rv(s["rv"]) + ([{"k": "copy", "place": s["rv"]["place"]}] if s["rv"]["k"] in ("ref",) else []):
                pass
    rep.floor(rule, "bitfield selectors in recover", len(sites), 1)
    guards = []
    for bi, t in sites:
        sel = tm.operand(t["args"][1])
        # (1) selector derived from iterating the bitfield array itself
        from_iter = False
        for x in T.walk(sel):
            if x[0] == "call" and x[1].endswith("::next"):
                src = x[2][0]
                if any(y[0] == "f" and y[3] == "bitfields" for y in T.walk(src)):
                    from_iter = True
        # (2) dominated by a bound guard mentioning frames()/len of bitfields and the selector's index terms
        guarded = False
        gdesc = ""
        for s, d in lib.controlling_edges(b, bi):
            c = tm.operand(b.term(s)["discr"])
            pol = lib.bool_edge_polarity(b, s, d)
            cmp_ = lib.normalize_cmp(c) if c[0] == "bin" else None
            if not cmp_ or pol is None:
                continue
            lhs, rel, rhs = cmp_ if pol else lib.negate_rel(cmp_)
            if rel not in ("lt", "le"):
                continue
            bound = rhs
            is_bound = (T.mentions_call(bound, "llfree::lower::Lower::frames") or any(
                y[0] == "f" and y[3] in ("len", "bitfields") for y in T.walk(bound)) or
                any(y[0] == "call" and y[1] == "slice::len" and any(z[0] == "f" and z[3] == "bitfields" for z in T.walk(y)) for y in T.walk(bound)))
            # the guarded quantity depends on the same loop indices as the selector
            nx_sel = {T.canon(x) for x in T.walk(sel) if x[0] == "call" and x[1].endswith("::next")}
            nx_lhs = {T.canon(x) for x in T.walk(lhs) if x[0] == "call" and x[1].endswith("::next")}
            if is_bound and nx_sel and nx_sel <= nx_lhs and rel == "lt":
                guarded = True
                gdesc = "%s < %s" % (T.show(lhs), T.show(bound))
        if guarded and not from_iter:
            guards.append((t, sel))
        rep.check(from_iter or guarded, rule, "recover|selector|" + ("%s" % callee_name(b.term(t["target"])["callee"]) if b.term(t["target"])["k"] == "call" else "use"),
                  "selector inside the bitfield domain (%s)" % ("iterates self.bitfields" if from_iter else gdesc),
                  "self.bitfield(%s) is indexed from the table domain (tables x TREE_HUGE entries) without a bound check against "
                  "frames(): out of bounds whenever the last tree holds fewer than TREE_HUGE huge frames" % T.show(sel), t["span"])


def _is_start_of(prog, lhs, sels):
    """lhs is the first frame of the huge frame one of the bitfield selectors names (arithmetic form)"""
    hf = prog.crate("llfree").const("llfree::HUGE_FRAMES")
    ll = lib.index_lin(prog, lhs)
    if ll is None:
        return False
    for sel in sels:
        ls = lib.index_lin(prog, sel)
        if ls is not None and T._lin_scale(ls, hf) == ll:
            return True
    return False


def r_recover_complete(rep, prog):
    """Completeness half of the bound: the early exit may only drop table entries whose huge frame starts outside the
    managed range. A tighter bound (e.g. frames() / LEN, the number of *fully* backed huge frames) silently leaves the
    partially backed last huge frame unrepaired."""
    rule = "R-RECOVER-COMPLETE"
    rep.rule(rule, "recover repairs every entry whose huge frame starts below frames(): besides iterator exhaustion, the only "
                   "condition under which an entry is skipped is exactly `start >= frames()` (or `start.as_huge() >= bitfields.len()`)")
    b = lib.need_body(prog, RECOVER)
    tm = T.Terms(b, prog)
    loads = [(bi, t) for bi, t in lib.find_calls(b, "llfree::atomic::Atom::load")]
    rep.floor(rule, "entry loads in recover", len(loads), 1)
    sels = [tm.operand(t["args"][1]) for _, t in lib.find_calls(b, BITFIELD)]
    frames_of = set()     # F with selector == as_huge(FrameId{F})
    sel_canon = set()
    for sel in sels:
        sel_canon.add(T.canon(sel))
        if sel[0] == "call" and sel[1] == "llfree::FrameId::as_huge" and sel[2] and sel[2][0][0] == "agg":
            frames_of.add(T.canon(sel[2][0][2][0]))
    for bi, t in loads:
        n_guard = 0
        for s, d in lib.controlling_edges(b, bi):
            c = tm.operand(b.term(s)["discr"])
            if c[0] != "bin" and any(x[0] == "call" and x[1].endswith("::next") for x in T.walk(c)) and not any(
                    x[0] == "bin" for x in T.walk(c)):
                continue      # Option discriminant of the iterator: exhaustion
            pol = lib.bool_edge_polarity(b, s, d)
            cmp_ = lib.normalize_cmp(c) if c[0] == "bin" else None
            key = "recover|skip-guard"
            if not cmp_ or pol is None:
                rep.violation(rule, key, "an entry of the huge table is skipped under a condition the rule cannot read as a bound on "
                              "its start frame: %s" % T.show(c)[:160], b.term(s)["span"])
                continue
            n_guard += 1
            lhs, rel, rhs = cmp_ if pol else lib.negate_rel(cmp_)
            # canonical orientation: small < big
            if rel in ("gt", "ge"):
                lhs, rhs, rel = rhs, lhs, {"gt": "lt", "ge": "le"}[rel]
            cl, cr = T.canon(lhs), T.canon(rhs)
            exact = False
            why = ""
            if rel == "lt" and cr == ("call", "llfree::lower::Lower::frames", (("p", "self"),)) and cl in frames_of:
                exact, why = True, "start.0 < frames()"
            elif rel == "lt" and cr == ("call", "llfree::lower::Lower::frames", (("p", "self"),)) and _is_start_of(prog, lhs, sels):
                exact, why = True, "start.0 < frames() (start = HUGE_FRAMES * selector)"
            elif rel == "lt" and any(cl == ("f", sc, 0) for sc in sel_canon) and cr[0] == "call" and cr[1] == "slice::len" and any(
                    y[0] == "f" and y[3] == "bitfields" for y in T.walk(rhs)):
                exact, why = True, "start.as_huge().0 < bitfields.len()"
            rep.check(exact, rule, key, "entries are skipped only when %s fails" % why,
                      "entries are processed only while %s %s %s; that is not the managed range (start.0 < frames(), equivalently "
                      "start.as_huge().0 < bitfields.len() = ceil(frames / LEN)): a huge frame that is only partially backed, or any "
                      "entry the bound cuts off, keeps its stale counter after a crash" % (T.show(lhs)[:120], rel, T.show(rhs)[:80]),
                      b.term(s)["span"])
        rep.check(True, rule, "recover|guards", "%d skip conditions examined" % n_guard)


def r_recover_flow(rep, prog):
    rule = "R-RECOVER-FLOW"
    rep.rule(rule, "recover writes only fill(false) / store(new_with(count_zeros(bitfield))) and uses one selector derived from the repaired entry's (i, j)")
    b = lib.need_body(prog, RECOVER)
    tm = T.Terms(b, prog)
    cg, eff = lib.analyses(prog)
    sels = []
    for bi, t in lib.find_calls(b, BITFIELD):
        sels.append((bi, t, T.canon(tm.operand(t["args"][1]))))
    same = len({s for _, _, s in sels}) == 1
    if not same:
        # name the odd one out
        from collections import Counter
        cnt = Counter(s for _, _, s in sels)
        major = cnt.most_common(1)[0][0]
        for bi, t, s in sels:
            if s != major:
                rep.violation(rule, "recover|same-selector", "this bitfield selector (%s) differs from the one used for the check/count (%s): "
                              "the repair touches another huge frame's bitfield" % (T.show(tm.operand(t["args"][1])), "as_huge(FrameId(TreeId(i).as_frame() + HugeId(j).as_frame()))"),
                              t["span"])
    else:
        rep.ok(rule, "recover|same-selector", "all %d bitfield selectors are the same term" % len(sels))
    # selector structure: as_huge(FrameId(TreeId(i).as_frame().0 + HugeId(j).as_frame().0)), i outer index, j inner index of the entry
    loads = lib.find_calls(b, "llfree::atomic::Atom::load")
    stores = lib.find_calls(b, "llfree::atomic::Atom::store")
    if sels and loads:
        sel = tm.operand(sels[0][1]["args"][1])
        entry = tm.operand(loads[0][1]["args"][0])
        e_next = [x for x in T.walk(entry) if x[0] == "call" and x[1].endswith("::next")]
        inner_next = e_next[0] if e_next else None
        tid = [x for x in T.walk(sel) if x[0] == "agg" and x[1].startswith("adt:llfree::trees::TreeId")]
        hid = [x for x in T.walk(sel) if x[0] == "agg" and x[1].startswith("adt:llfree::lower::HugeId")]
        good = False
        detail = T.show(sel)
        if inner_next is not None and tid and hid:
            j = T.canon(hid[0][2][0])
            i = T.canon(tid[0][2][0])
            j_want = T.canon(("f", ("f", ("as", inner_next, "Some"), 0, None), 0, None))
            # outer next = the one inside inner iterator's source
            outer = [x for x in T.walk(inner_next[2][0]) if x[0] == "call" and x[1].endswith("::next")]
            i_want = T.canon(("f", ("f", ("as", outer[0], "Some"), 0, None), 0, None)) if outer else None
            over_children = outer and any(y[0] == "f" and y[3] == "children" for y in T.walk(outer[0][2][0]))
            good = j == j_want and i == i_want and bool(over_children)
        if not good and inner_next is not None:
            # arithmetic form: selector = TREE_HUGE * i + j for the outer / inner enumerate indices of the entry
            outer = [x for x in T.walk(inner_next[2][0]) if x[0] == "call" and x[1].endswith("::next")]
            if outer and any(y[0] == "f" and y[3] == "children" for y in T.walk(outer[0][2][0])):
                th = prog.crate("llfree").const("llfree::TREE_HUGE")
                lj = lib.index_lin(prog, ("f", ("f", ("as", inner_next, "Some"), 0, None), 0, None))
                li = lib.index_lin(prog, ("f", ("f", ("as", outer[0], "Some"), 0, None), 0, None))
                lsel = lib.index_lin(prog, sel)
                good = None not in (lj, li, lsel) and T._lin_add(T._lin_scale(li, th), lj, 1) == lsel
            lin = T.linear(T.strip_refs(sel)[2][0][2][0]) if False else None
        rep.check(good, rule, "recover|selector-of-entry", "selector = huge frame (i, j) of the entry being repaired",
                  "the bitfield selector is not derived from the entry's own table index i and entry index j: " + detail, sels[0][1]["span"])
    # writes
    n_w = 0
    for bi, t in b.calls():
        w = eff.call_may_write(b, t)
        if not w:
            continue
        n_w += 1
        name = callee_name(t["callee"])
        if name == "llfree::bitfield::Bitfield::fill":
            v = T.const_val(tm.operand(t["args"][1]))
            # only on the huge arm
            conds = [(tm.operand(b.term(s)["discr"]), lib.bool_edge_polarity(b, s, d)) for s, d in lib.controlling_edges(b, bi)]
            on_huge = any(c[0] == "call" and c[1] == "llfree::lower::HugeEntry::huge" and pol is True for c, pol in conds)
            rep.check(v == 0 and on_huge, rule, "recover|write|fill", "fill(false) on the bitfield of a huge-marked entry",
                      "unexpected fill: value %s, on huge arm: %s" % (v, on_huge), t["span"])
            _repair_guard(rep, rule, b, tm, bi, "fill", t["span"])
        elif name == "llfree::atomic::Atom::store":
            v = tm.operand(t["args"][1])
            ok = v[0] == "call" and v[1] == "llfree::lower::HugeEntry::new_with" and v[2][0][0] == "call" and \
                v[2][0][1] == "llfree::bitfield::Bitfield::count_zeros" and any(x[0] == "call" and x[1] == BITFIELD for x in T.walk(v[2][0]))
            recv = T.canon(tm.operand(t["args"][0]))
            same_entry = bool(loads) and recv == T.canon(tm.operand(loads[0][1]["args"][0]))
            rep.check(ok and same_entry, rule, "recover|write|store", "entry := new_with(count_zeros(its bitfield))",
                      "the recovered counter is %s stored into %s" % (T.show(v), T.show(tm.operand(t["args"][0]))), t["span"])
            _repair_guard(rep, rule, b, tm, bi, "store", t["span"])
        else:
            rep.violation(rule, "recover|write|%s" % name, "recover performs an unreviewed write through %s" % name, t["span"])
    rep.floor(rule, "writes in recover", n_w, 2)
    # iterates all tables, all entries, to exhaustion
    from props.c10 import loop_info, exits_only_by_exhaustion, iter_loop_header
    for h, blocks, exits in loop_info(b):
        ok, why = exits_only_by_exhaustion(b, tm, h, blocks, exits)
        info = iter_loop_header(b, tm, h)
        src = T.show(info[0][2][0])[:80] if info else "?"
        # a `break` guarded by a bound check against frames() is the accepted early exit (entries beyond the managed range)
        if not ok:
            accepted = True
            for a, d in exits:
                if info and a == info[1]:
                    continue
                r = cfg.reachable_from(b, d)
                if not any(b.term(x)["k"] == "return" for x in r) and not any(x in blocks for x in r):
                    continue
                t = b.term(a)
                c = tm.operand(t["discr"]) if t["k"] == "switch" else None
                if c is None or not (T.mentions_call(c, "llfree::lower::Lower::frames") or any(y[0] == "f" and y[3] == "len" for y in T.walk(c))):
                    accepted = False
            ok = accepted
        rep.check(ok, rule, "recover|loop-exhaustive|bb", "loop over %s ends by exhaustion (or at the managed range's end)" % src,
                  "recovery loop can stop early: " + why, b.term(h)["span"])


def _repair_guard(rep, rule, b, tm, bi, what, span):
    """A repair may be skipped only when there is nothing to repair: the only value comparison that controls it is
    `counted zeros != expected` (entry.free() resp. Bitfield::LEN) on its true edge."""
    bad = []
    for s, d in lib.controlling_edges(b, bi):
        c = tm.operand(b.term(s)["discr"])
        if c[0] != "bin" or not T.mentions_call(c, "llfree::bitfield::Bitfield::count_zeros"):
            continue
        pol = lib.bool_edge_polarity(b, s, d)
        cmp_ = lib.normalize_cmp(c)
        if not cmp_ or pol is None:
            bad.append(T.show(c)[:80])
            continue
        lhs, rel, rhs = cmp_ if pol else lib.negate_rel(cmp_)
        sides = [T.canon(T.strip_casts(lhs)), T.canon(T.strip_casts(rhs))]
        zeros = [x for x in sides if x[0] == "call" and x[1] == "llfree::bitfield::Bitfield::count_zeros"]
        other = [x for x in sides if not (x[0] == "call" and x[1] == "llfree::bitfield::Bitfield::count_zeros")]
        LEN = None
        if what == "fill":
            want = len(other) == 1 and other[0][0] == "c"
        else:
            want = len(other) == 1 and other[0][0] == "call" and other[0][1] == "llfree::lower::HugeEntry::free"
        if not (rel == "ne" and len(zeros) == 1 and want):
            bad.append("%s %s %s" % (T.show(lhs)[:50], rel, T.show(rhs)[:50]))
    rep.check(not bad, rule, "recover|repair-guard|%s" % what, "the repair runs whenever the counted zeros differ from the recorded state",
              "the repairing %s is executed only if `%s`: a stale counter/bitfield left by a crash is not repaired" % (what, "; ".join(bad)), span)


def r_init_dispatch(rep, prog):
    rule = "R-INIT-DISPATCH"
    rep.rule(rule, "Lower::new: FreeAll->free_all, AllocAll->reserve_all, Recover->recover, None->nothing; NvmAlloc::create: recover flag -> Init")
    b = lib.need_body(prog, "llfree::lower::Lower::new")
    rep.saw(b.name)
    adt = prog.crate("llfree").adts["llfree::Init"]
    d = {v["name"]: v["discr"] for v in adt["variants"]}
    ps = PathSens(b, prog)
    initl = b.arg_local("init")
    want = {"llfree::lower::Lower::free_all": d["FreeAll"], "llfree::lower::Lower::reserve_all": d["AllocAll"],
            "llfree::lower::Lower::recover": d["Recover"]}
    for callee, dv in want.items():
        sites = lib.find_calls(b, callee)
        if len(sites) != 1:
            rep.violation(rule, "Lower::new|%s" % callee.split("::")[-1], "expected exactly one call, found %d" % len(sites), b.span)
            continue
        bi, t = sites[0]
        vals = {env.get(("d", initl, ())) for _, env in ps.states_at(bi)}
        rep.check(vals == {dv}, rule, "Lower::new|%s" % callee.split("::")[-1], "called exactly for init discriminant %d" % dv,
                  "%s runs for init discriminants %s (expected %d)" % (callee, sorted(vals, key=str), dv), t["span"])
    # and every mode reaches Ok
    seen = set()
    for rn in ps.return_nodes():
        if ps.ret_discr(rn) == 0:
            env = ps.term_env_of(rn)
            seen.add(env.get(("d", initl, ())))
    rep.check(set(d.values()) <= seen, rule, "Lower::new|all-modes", "all four modes reach Ok", "modes reaching Ok: %s" % sorted(seen, key=str), b.span)
    # NvmAlloc::create
    b = lib.need_body(prog, "llfree::wrapper::NvmAlloc::create")
    rep.saw(b.name)
    ps = PathSens(b, prog)
    tm = T.Terms(b, prog)
    rl = b.arg_local("recover")
    zc = [(bi, t) for bi, t in b.calls() if (callee_name(t["callee"]) or "") == "llfree::wrapper::ZoneAlloc::create"]
    if len(zc) != 1:
        rep.violation(rule, "NvmAlloc::create|zone-create", "expected one ZoneAlloc::create call", b.span)
        return
    zb, zt = zc[0]
    ia = zt["args"][2]
    good = True
    pairs = set()
    for _, env in ps.states_at_term(zb):
        rv = env.get(("v", rl))
        r, s = ps.canon_place(ia["place"]) if ia["k"] in ("copy", "move") else (None, None)
        iv = env.get(("d", r, s)) if r is not None else None
        pairs.add((rv, iv))
    rep.check(pairs == {(1, d["Recover"]), (0, d["FreeAll"])}, rule, "NvmAlloc::create|recover-flag",
              "recover=true -> Init::Recover, false -> Init::FreeAll",
              "recover flag / init mode pairs are %s" % sorted(pairs, key=str), zt["span"])


def r_rebuild_order(rep, prog):
    rule = "R-REBUILD-ORDER"
    rep.rule(rule, "LLFree::new: Lower::new (recovery) succeeds before Trees::new; trees are initialised from lower.stats_at(.., TREE_ORDER).free_frames")
    fn = "<llfree::llfree::LLFree as llfree::Alloc>::new"
    b = lib.need_body(prog, fn)
    rep.saw(fn)
    tm = T.Terms(b, prog)
    ps = PathSens(b, prog)
    ln = lib.find_calls(b, "llfree::lower::Lower::new")
    tn = lib.find_calls(b, "llfree::trees::Trees::new")
    if len(ln) != 1 or len(tn) != 1:
        rep.violation(rule, "new|shape", "expected one Lower::new and one Trees::new", b.span)
        return
    lb, lt = ln[0]
    tb, tt = tn[0]
    bad = [e for _, e in ps.states_at(tb) if e.get(("c", lb)) != 0]
    rep.check(not bad, rule, "new|lower-before-trees", "Trees::new only after Lower::new returned Ok",
              "Trees::new can run before/without a successful Lower::new", tt["span"])
    la = [T.canon(tm.operand(x)) for x in lt["args"]]
    rep.check(la[0] == ("p", "frames") and la[1] == ("p", "init"), rule, "new|lower-args", "Lower::new(frames, init, meta.lower)",
              "Lower::new is given (%s, %s)" % (la[0], la[1]), lt["span"])
    ta = [T.canon(tm.operand(x)) for x in tt["args"]]
    rep.check(ta[0] == ("p", "frames"), rule, "new|trees-frames", "Trees::new(frames, ..)", "Trees::new is given %s frames" % (ta[0],), tt["span"])
    # tree_init closure
    c = lib.need_body(prog, fn + "::{closure#0}")
    ctm = T.Terms(c, prog)
    tree_order = prog.crate("llfree").const("llfree::TREE_ORDER")
    good = False
    detail = ""
    for bi, si, rv in lib.assignments_to_return(c):
        t = ctm.call_term(bi) if si == "term" else ctm.rvalue(rv)
        detail = T.show(t)
        sa = [x for x in T.walk(t) if x[0] == "call" and x[1] == "llfree::lower::Lower::stats_at"]
        if sa and t[0] == "f" and t[3] == "free_frames":
            recv = T.canon(sa[0][2][0])
            fr = sa[0][2][1]
            od = T.const_val(sa[0][2][2])
            start = c.local_name(2) or "_2"
            good = recv == ("up", "lower") and od == tree_order and fr[0] == "agg" and T.canon(fr[2][0]) == ("p", start)
    rep.check(good, rule, "new|tree_init", "tree_init = |start| lower.stats_at(FrameId(start), TREE_ORDER).free_frames",
              "tree initialiser is " + detail, c.span)
    # captured `lower` is the Lower::new result
    for bi, si, s in b.stmts():
        if s["k"] == "assign" and s["rv"]["k"] == "aggregate" and s["rv"]["kind"]["k"] == "closure" and s["rv"]["kind"]["def"] == c.name:
            caps = [tm.operand(o) for o in s["rv"]["ops"]]
            rep.check(any(T.mentions_call(cp, "llfree::lower::Lower::new") for cp in caps), rule, "new|tree_init-captures-lower",
                      "the closure reads the lower level just created", "tree_init does not capture the new lower level", s["span"])
    # Trees::new
    t_new = lib.need_body(prog, "llfree::trees::Trees::new")
    rep.saw(t_new.name)
    ttm = T.Terms(t_new, prog)
    tree_frames = prog.crate("llfree").const("llfree::TREE_FRAMES")
    good = False
    detail = ""
    for bi, t in t_new.calls_to("llfree::trees::Tree::with"):
        cnt = ttm.operand(t["args"][0])
        detail = T.show(cnt)
        if cnt[0] == "call" and cnt[1].endswith("ops::function::Fn::call"):
            arg = cnt[2][1]
            if arg[0] == "agg" and arg[2]:
                l = T.linear(arg[2][0])
                # i * TREE_FRAMES with i the enumerate index
                good = l is not None and l[1] == 0 and len(l[0]) == 1 and list(l[0].values())[0] == tree_frames
        res = T.const_val(ttm.operand(t["args"][1]))
        good = good and res == 0 and T.canon(ttm.operand(t["args"][2])) == ("p", "default")
    rep.check(good, rule, "Trees::new|entry", "entry i = Tree::with(tree_init(i * TREE_FRAMES), false, default)",
              "tree entries are initialised with " + detail, t_new.span)


def run(rep, programs):
    prog = programs["core"]
    # persistent write order of the one multi-step transition recovery cannot re-derive: splitting a huge frame
    from props import c03
    c03.r_split_order(rep, prog)
    from props import c06
    c06.r_fill_writes(rep, prog)      # recover repairs with Bitfield::fill(false)
    from props import c17
    c17.r_nvm_layout(rep, prog)       # the persistent header must not be overlapped by the lower metadata, or recovery refuses the region
    c17.r_nvm_header(rep, prog)
    r_recover_domain(rep, prog)
    r_recover_complete(rep, prog)
    r_recover_flow(rep, prog)
    r_init_dispatch(rep, prog)
    r_rebuild_order(rep, prog)


def r_rebuild_total(rep, prog):
    """Recovery (and free-all / allocate-all) rebuilds the volatile tree array in Trees::new. The buffer it writes into is
    arbitrary volatile memory: *every* entry has to be written, also the one of a tree without a free frame."""
    rule = "R-REBUILD-TOTAL"
    rep.rule(rule, "Trees::new: with a tree_init function, the entry of every tree is written in every iteration - the write depends "
                   "only on the buffer-size assertion, tree_init being Some and the iterator not being exhausted")
    b = lib.need_body(prog, "llfree::trees::Trees::new")
    rep.saw(b.name)
    tm = T.Terms(b, prog)
    n = 0
    for bi, si, s in b.stmts():
        if not (s["k"] == "assign" and (s["place"].get("p") or []) and s["place"]["p"][0]["k"] == "deref"):
            continue
        v = T.canon(tm.rvalue(s["rv"]))
        if not any(isinstance(x, tuple) and x and x[0] == "call" and str(x[1]).endswith("Tree::with") for x in T.walk(v)):
            continue
        n += 1
        extra = []
        for sd, d in lib.controlling_edges(b, bi):
            c = T.canon(tm.operand(b.term(sd)["discr"]))
            if c[0] == "discr":
                inner = c[1]
                if inner == ("p", "tree_init") or (inner[0] == "call" and str(inner[1]).endswith("::next")):
                    continue
            if c[0] == "bin" and any(x == ("p", "buffer") for x in T.walk(c)) and any(
                    isinstance(x, tuple) and x and x[0] == "call" and str(x[1]).endswith("metadata_size") for x in T.walk(c)):
                continue
            if c[0] == "bin" and c[1] in ("Lt", "Le", "Gt", "Ge") and any(
                    isinstance(x, tuple) and x and ((x[0] == "call" and str(x[1]).endswith("::len")) or (x[0] == "un" and x[1] == "PtrMetadata"))
                    for x in (c[2], c[3])):
                continue      # index loop bound: i < entries.len()
            extra.append((str(c)[:100], b.term(sd).get("span")))
        rep.check(not extra, rule, "Trees::new|entry-write-unconditional", "every tree's entry is written",
                  "the entry of a tree is written only under a further condition (%s): entries that fail it keep what the volatile "
                  "buffer held before (stale free / reserved / class bits after recovery)" % (extra[0][0] if extra else ""),
                  extra[0][1] if extra else s.get("span"))
    if n == 0:
        rep.check(True, rule, "Trees::new|entry-write-unconditional", "undecided: no `*e = Atom::new(Tree::with(..))` write found")
        rep.note("%s: Trees::new writes its entries in an unrecognised form; totality undecided" % rule)


_run_c05t = run


def run(rep, programs):  # noqa: F811
    _run_c05t(rep, programs)
    r_rebuild_total(rep, programs["core"])


EXPLANATION = EXPLANATION + (
    ' R-REBUILD-TOTAL: Trees::new writes the entry of every tree in every iteration (also of a tree without a free frame), because the volatile buffer it rebuilds into is arbitrary.'
)
