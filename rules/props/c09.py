"""C09 — no panic or abort for any valid-parameter call sequence or configuration.
Claimed clause: every panic-capable site reachable from the API is accounted for (panic ledger:
automatic discharges D0-D4, reviewed table D5 with machine-checked premises). DESIGN.md §4 C09."""
import fnmatch

import cfg
import lib
import panics
import terms as T
from facts import callee_name
from pathsens import PathSens

KINDS = ["core"]
LEVEL_TEXT = ("closed-world ledger over rustc MIR: every Assert terminator (overflow, division, bounds), explicit panic, unwrap/expect and "
              "may-panic core call in functions reachable from the API is either discharged automatically (constant operands, dominating "
              "guard, range fact, call-graph precondition) or matches a reviewed table entry whose structural premises are checked by rules; "
              "a new or changed site is a violation. The table entries are arguments, not proofs")
TECHNIQUE = "site enumeration over the API call graph + guard dominance / range facts + reviewed allow-list with machine-checked premises"
EXPLANATION = (
    "Sites: Assert terminators of kind Sub/Shl/Shr/Neg overflow, div/rem by zero, bounds; calls resolving to core::panicking::*, "
    "unwrap/expect, unreachable, bitfield-struct range panics; core functions in the reviewed may-panic table. usize Add/Mul overflow is "
    "excluded by the stated assumption (frame counts < 2^44). Discharges: D1 constant operands, D2 dominating comparison guard, D3 range "
    "fact (x % C, child_idx/huge_idx, iteration 0..len of the indexed slice), D4 the operand is the allocation order after LLFree::check, "
    "D5 tables/panic_ledger.json keyed (function, kind, coarse operand shape) -> reason. Premises checked here: P-RESERVED-ARM (the slot "
    "lookup in reserve_or_steal happens only on the reserved arm), R-RESERVED-CLASS-STABLE (no writer changes the class of a reserved "
    "tree), P-CHANGE-ID (a tree id from the API is bounds-checked before it indexes the tree array), P-EMPTY (initialisation handles an "
    "empty table array), P-SORTED-BUFFER (guards of the slicing in SortedBuffer::add), and the rules the ledger cites as premises of "
    "counter assertions: R-BALANCE-T / R-BALANCE (C04), R-RESERVE-BEFORE-LOWER (C15), R-UNRESERVE-OWNED (C03), "
    "R-NVM-LAYOUT (C17; the region-size guard that keeps the slicing in NvmAlloc::create in range)."
)

TR = "llfree::trees::Tree::"


def ledger(rep, prog):
    rule = "PANIC-LEDGER"
    rep.rule(rule, "every panic-capable site reachable from the API is discharged (D1-D4) or listed in the reviewed table (D5)")
    cg, _ = lib.analyses(prog)
    reach = cg.reachable(panics.roots(cg))
    sites = panics.enumerate_sites(prog, cg, reach)
    table = panics.load_table()["entries"]
    used = set()
    counts = {}
    bykey = {}
    for s in sites:
        d = panics.auto_discharge(prog, cg, s)
        if d is None:
            for i, e in enumerate(table):
                if fnmatch.fnmatchcase(s.key, e["pattern"]):
                    d = "D5 %s: %s" % (e["kind"], e["reason"])
                    used.add(i)
                    break
        s.discharge = d
        tag = (d or "none").split(":")[0].split(" ")[0]
        counts[tag] = counts.get(tag, 0) + 1
        bykey.setdefault(s.key, []).append(s)
    for key, ss in sorted(bykey.items()):
        s = ss[0]
        if all(x.discharge for x in ss):
            rep.ok(rule, key, s.discharge[:160], s.span)
        else:
            bad = [x for x in ss if not x.discharge][0]
            rep.violation(rule, key, "panic-capable site with no discharge: %s%s. Reachable from the API; no dominating guard, range fact "
                          "or reviewed table entry covers it" % (bad.detail, " (debug builds only)" if bad.debug_only else ""), bad.span)
    rep.floor(rule, "panic-capable sites reachable from the API", len(sites), 150)
    rep.note("discharge classes: %s" % sorted(counts.items()))
    stale = [table[i]["pattern"] for i in range(len(table)) if i not in used]
    if stale:
        rep.note("table entries that match no site in this configuration (not an error): %s" % stale[:12])
    rep.assume("usize Add/Mul overflow excluded: frame counts < 2^44")
    rep.assume("C09 'valid parameter': slot index below the class's slot count; class ids < 8; queries take in-range frames; cores >= 1")


def p_reserved_arm(rep, prog):
    rule = "P-RESERVED-ARM"
    rep.rule(rule, "LLFree::reserve_or_steal looks up / asserts the slot count of the target class only on the arm where the tree was reserved")
    b = lib.need_body(prog, "llfree::llfree::LLFree::reserve_or_steal")
    ps = PathSens(b, prog)
    rs = lib.find_calls(b, "llfree::trees::Trees::reserve_or_steal")
    if len(rs) != 1:
        rep.violation(rule, "reserve_or_steal|shape", "expected one Trees::reserve_or_steal call", b.span)
        return
    rb, rt = rs[0]
    dl = rt["dest"]["l"]
    n = 0
    for bi, t in b.calls():
        cn = callee_name(t["callee"]) or ""
        is_site = cn == "core::option::Option::expect" or lib.is_panic_callee(cn)
        if not is_site:
            continue
        n += 1
        states = ps.states_at(bi)
        good = bool(states) and all(env.get(("pv", dl, ("as1", ".0", ".0"))) == 1 for _, env in states)
        rep.check(good, rule, "reserve_or_steal|%s" % cn.split("::")[-1],
                  "only when the tree was reserved (target class = requested class, which has slots)",
                  "the slot count of the *target* class is required to be > 0 even when the tree was only stolen from: a class with slots "
                  "stealing from a tree of a zero-slot class panics", t["span"])
    for bi, blk in enumerate(b.blocks):
        t = blk["term"]
        if t["k"] == "assert" and t["msg"]["k"] == "rem_zero":
            n += 1
            states = ps.states_at(bi)
            good = bool(states) and all(env.get(("pv", dl, ("as1", ".0", ".0"))) == 1 for _, env in states)
            rep.check(good, rule, "reserve_or_steal|rem", "local % class_len only on the reserved arm",
                      "local % class_len is computed for a stolen-from class that may have 0 slots", t["span"])
    rep.floor(rule, "slot-count sites in reserve_or_steal", n, 1)


def r_reserved_class_stable(rep, prog):
    rule = "R-RESERVED-CLASS-STABLE"
    rep.rule(rule, "the class of a tree entry is only changed when the entry is not reserved (or by the reservation itself)")
    n = 0
    for fn in sorted(prog.crate("llfree").bodies):
        if not fn.startswith(TR) or "{closure" in fn:
            continue
        b = prog.body(fn)
        if fn.rsplit("::", 1)[-1] in ("set_class", "with_class", "set_class_checked", "with_class_checked", "new", "from_bits", "with"):
            continue
        tm = T.Terms(b, prog)
        for bi, t in b.calls():
            cn = callee_name(t["callee"])
            if cn not in (TR + "set_class", TR + "with_class"):
                continue
            n += 1
            recv = tm.operand(t["args"][0])
            newc = tm.operand(t["args"][1])
            # allowed: controlled by reserved() == false on self; or receiver already un-reserved (with_reserved(.., false)); or class unchanged
            ok = False
            why = ""
            for s, d in lib.controlling_edges(b, bi):
                c = tm.operand(b.term(s)["discr"])
                if c[0] == "call" and c[1] == TR + "reserved" and T.canon(c[2][0]) == ("p", "self") and lib.bool_edge_polarity(b, s, d) is False:
                    ok, why = True, "guarded by !self.reserved()"
            if not ok:
                # path-sensitive: on every path to the site, a self.reserved() call returned false
                rcalls = [rb for rb, rt in b.calls() if callee_name(rt["callee"]) == TR + "reserved"
                          and T.canon(tm.operand(rt["args"][0])) == ("p", "self")]
                if rcalls:
                    ps = PathSens(b, prog, track=lambda nm: nm == TR + "reserved")
                    sts = ps.states_at(bi)
                    if sts and all(any(env.get(("c", rb)) == 0 for rb in rcalls) for _, env in sts):
                        ok, why = True, "!self.reserved() holds on every path to the site"
            for x in T.walk(recv):
                if x[0] == "call" and x[1] == TR + "with_reserved" and T.const_val(x[2][1]) == 0:
                    ok, why = True, "applied to the entry after with_reserved(false)"
            if T.canon(newc) == ("call", TR + "class", (("p", "self"),)):
                ok, why = True, "class unchanged"
            rep.check(ok, rule, "%s|%s" % (fn, cn.split("::")[-1]), why,
                      "%s changes the class of an entry that may be reserved: the slot that holds the reservation keeps its own class, "
                      "and Tree::unreserve_add then panics with `unreserve invalid class` when the policy rates (slot class, new class) "
                      "as Steal/Invalid" % fn, t["span"])
    rep.floor(rule, "class-changing sites in Tree methods", n, 2)


def p_change_id(rep, prog):
    rule = "P-CHANGE-ID"
    rep.rule(rule, "a tree id supplied through the API is compared with the number of trees before it indexes the tree array")
    b = lib.need_body(prog, "llfree::trees::Trees::change")
    tm = T.Terms(b, prog)
    n = 0
    for bi, t in b.calls_to("llfree::trees::Trees::change_at"):
        idt = tm.operand(t["args"][1])
        if not T.mentions_param(idt, "matcher"):
            continue
        n += 1
        good = False
        for s, d in lib.controlling_edges(b, bi):
            c = tm.operand(b.term(s)["discr"])
            pol = lib.bool_edge_polarity(b, s, d)
            cmp_ = lib.normalize_cmp(c) if c[0] == "bin" else None
            if cmp_ and pol is not None:
                lhs, rel, rhs = cmp_ if pol else lib.negate_rel(cmp_)
                is_len = any(x[0] == "call" and x[1] in ("llfree::trees::Trees::len", "slice::len") for x in T.walk(rhs))
                if rel == "lt" and T.mentions_param(lhs, "matcher") and is_len:
                    good = True
        rep.check(good, rule, "Trees::change|id-bound", "matcher.id is checked against the number of trees",
                  "change_tree with an id >= number of trees indexes entries[id] out of bounds (change_tree never runs LLFree::check)", t["span"])
    rep.floor(rule, "change_at calls with an API-supplied id", n, 1)


def run(rep, programs):
    prog = programs["core"]
    ledger(rep, prog)
    p_reserved_arm(rep, prog)
    r_reserved_class_stable(rep, prog)
    p_change_id(rep, prog)
    from props import c16
    c16.p_sorted_buffer_guards(rep, prog)
    # premises the ledger cites for counter arithmetic and for the `Unreserve failed` / overflow assertions
    from props import c03, c04, c15
    c04.r_balance_t(rep, prog)
    c04.r_balance(rep, prog)
    c15.r_reserve_before_lower(rep, prog)
    c03.r_unreserve_owned(rep, prog)
    from props import c17
    c17.r_nvm_layout(rep, prog)      # premise of the ledger entry for NvmAlloc::create
    # recover indexes the bitfields by the position of the table entry: its skip guard keeps that index inside the slice for a
    # partial last tree (premise of the ledger entry for Lower::bitfield)
    from props import c05
    c05.r_recover_domain(rep, prog)
    c05.r_recover_complete(rep, prog)
    # a slot that claims a tree it does not hold ends in `Unreserve failed` at the next drain / re-reservation
    c03.r_set_start_same_tree(rep, prog)


EXPLANATION = EXPLANATION + (
    " Further premises: R-RECOVER-DOMAIN / R-RECOVER-COMPLETE (recover's bitfield index stays in range), R-SET-START-SAME-TREE (no slot claims a tree it does not hold: `Unreserve failed`)."
)


def p_packed_widths(rep, prog):
    """The counters live in bit-packed words (bitfield_struct). A counter field must be able to hold its largest legal value in
    *this* configuration - all frames of a tree / of a huge frame free - or the setter panics (debug) or truncates (release)."""
    rule = "P-PACKED-WIDTHS"
    rep.rule(rule, "Tree::FREE_BITS and LocalTree::FREE_BITS hold TREE_FRAMES, HugeEntry::COUNT_BITS holds HUGE_FRAMES, "
                   "Tree::CLASS_BITS holds every class (Class::BITS)")
    c = prog.crate("llfree").consts

    def val(n):
        v = c.get(n)
        return int(v) if v is not None else None
    tf, hf, cb = val("llfree::TREE_FRAMES"), val("llfree::HUGE_FRAMES"), val("llfree::Class::BITS")
    n = 0
    for name, need, what in (("llfree::trees::Tree::FREE_BITS", tf, "TREE_FRAMES"),
                             ("llfree::local::LocalTree::FREE_BITS", tf, "TREE_FRAMES"),
                             ("llfree::lower::HugeEntry::COUNT_BITS", hf, "HUGE_FRAMES")):
        bits = val(name)
        short = name.replace("llfree::", "")
        if bits is None or need is None:
            rep.check(True, rule, short, "undecided: constant not found (another encoding)")
            rep.note("%s: %s not found; the capacity of the packed counter is undecided" % (rule, short))
            continue
        n += 1
        rep.check((1 << bits) > need, rule, short, "2^%d > %s = %d" % (bits, what, need),
                  "%s = %d bits cannot hold the value %s = %d (a completely free tree / huge frame) in this configuration" % (
                      short, bits, what, need))
    bits = val("llfree::trees::Tree::CLASS_BITS")
    if bits is not None and cb is not None:
        n += 1
        rep.check(bits >= cb, rule, "trees::Tree::CLASS_BITS", "%d >= Class::BITS = %d" % (bits, cb),
                  "Tree::CLASS_BITS = %d cannot hold every class (Class::BITS = %d): classes alias when read back from a tree entry" % (bits, cb))
    rep.floor(rule, "packed field capacities decided", n, 3)


_run_c09w = run


def run(rep, programs):  # noqa: F811
    _run_c09w(rep, programs)
    p_packed_widths(rep, programs["core"])
