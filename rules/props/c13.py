"""C13 — the class reported for an allocation is one the policy permits.
R-CLASS-PROV in three layers + R-POLICY-ARGS (DESIGN.md §4 C13)."""
import lib
import terms as T
from facts import callee_name
from pathsens import PathSens

KINDS = ["core"]
LEVEL_TEXT = ("value-provenance rule over rustc MIR: for every path and every site that constructs the reported class, the "
              "class is the requested one, or the policy target on a path where the policy verdict at that site is known "
              "to be Match or Steal; decided for all paths, modulo purity of the PolicyFn")
TECHNIQUE = "class-value provenance per policy-verdict arm (path-sensitive) + closed-world check of every (FrameId, Class) constructor"
EXPLANATION = (
    "Layer 1: at every call through the PolicyFn pointer whose verdict selects a class (Tree::steal, Tree::reserve_or_steal, "
    "Locals::steal_any, Locals::demote_any) the class that reaches the result is the policy's first argument (requested) on any "
    "arm, or its second argument (target) only on paths where the verdict is known to be Match/Steal. R-POLICY-ARGS: argument 0 is "
    "the requested class, argument 1 the target's class. Layer 2: Trees::steal / Trees::reserve_or_steal return the class of the "
    "entry produced by the transformer; Layer 3: every (FrameId, Class) tuple built in the crate takes its class from the request "
    "or from a layer-2 result."
)

MATCH, DEMOTE, STEAL, INVALID = 0, 1, 2, 3


def policy_sites(b):
    out = []
    for bi, t in b.calls():
        if t["callee"].get("indirect") and b.local_ty(t["dest"]["l"]).endswith("Policy"):
            out.append((bi, t))
    return out


def class_source(t):
    """Follows a Tree-valued term to the term of its class field: ('explicit', term) or ('self',)"""
    t0 = t
    for _ in range(20):
        if t[0] == "call":
            n = t[1]
            if n == "llfree::trees::Tree::with_class":
                return ("explicit", t[2][1])
            if n == "llfree::trees::Tree::with":
                return ("explicit", t[2][2])
            if n in ("llfree::trees::Tree::with_free", "llfree::trees::Tree::with_reserved", "llfree::trees::Tree::put"):
                t = t[2][0]
                continue
            return ("unknown", t0)
        if t[0] == "p" and t[2] == "self":
            return ("self",)
        if t[0] in ("&", "*"):
            t = t[1]
            continue
        return ("unknown", t0)
    return ("unknown", t0)


def layer1_tree(rep, prog, fn, rule):
    b = lib.need_body(prog, fn)
    rep.saw(fn)
    tm = T.Terms(b, prog)
    sites = policy_sites(b)
    if len(sites) != 1:
        rep.violation(rule, "%s|policy-site" % fn, "expected one policy call, found %d" % len(sites), b.span)
        return 0
    pb, pt = sites[0]
    a_req = T.canon(tm.operand(pt["args"][0]))
    a_tgt = T.canon(tm.operand(pt["args"][1]))
    # R-POLICY-ARGS
    rep.check(a_req == ("p", "class"), "R-POLICY-ARGS", "%s|arg0" % fn, "policy(requested = class parameter, ..)",
              "first policy argument is not the requested class parameter: %s" % T.show(tm.operand(pt["args"][0])), pt["span"])
    rep.check(a_tgt == ("call", "llfree::trees::Tree::class", (("p", "self"),)), "R-POLICY-ARGS", "%s|arg1" % fn,
              "policy(.., target = self.class(), ..)",
              "second policy argument is not the tree's own class: %s" % T.show(tm.operand(pt["args"][1])), pt["span"])
    ps = PathSens(b, prog)
    n = 0
    # every Some(..) result
    for bi, si, rv in lib.assignments_to_return(b):
        if si == "term":
            continue
        if not (rv["k"] == "aggregate" and rv["kind"]["k"] == "adt" and rv["kind"]["variant"] == "Some"):
            continue
        # the class operand may be a multi-definition user variable (new_class): look at each definition
        val = tm.operand(rv["ops"][0])
        src = class_source(val)
        cands = []  # (states, kind)
        if src[0] == "explicit" and src[1][0] == "l":
            l = src[1][1]
            for (dbi, dsi) in b.whole_defs(l):
                if dsi == "term":
                    dterm = tm.call_term(dbi)
                else:
                    dterm = tm.rvalue(b.blocks[dbi]["stmts"][dsi]["rv"])
                cands.append((dbi, T.canon(dterm), b.term(dbi).get("span") if dsi == "term" else b.blocks[dbi]["stmts"][dsi]["span"]))
        elif src[0] == "explicit":
            cands.append((bi, T.canon(src[1]), b.blocks[bi]["stmts"][si]["span"]))
        elif src[0] == "self":
            cands.append((bi, a_tgt if a_tgt[0] == "call" else ("self-class",), b.blocks[bi]["stmts"][si]["span"]))
        else:
            rep.violation(rule, "%s|class-source" % fn, "cannot determine the class of the returned entry: " + T.show(val),
                          b.blocks[bi]["stmts"][si]["span"])
            continue
        for dbi, cterm, span in cands:
            n += 1
            verdicts = sorted({env.get(("c", pb)) for _, env in ps.states_at_term(dbi)}, key=lambda x: (x is None, x))
            names = {0: "Match", 1: "Demote", 2: "Steal", 3: "Invalid", None: "unknown"}
            vs = "/".join(names[v] for v in verdicts)
            if cterm == a_req:
                rep.ok(rule, "%s|arm|%s|requested" % (fn, vs), "requested class on verdict %s" % vs, span)
            elif cterm == a_tgt or cterm == ("self-class",):
                good = all(v in (MATCH, STEAL) for v in verdicts) and bool(verdicts)
                rep.check(good, rule, "%s|arm|%s|target" % (fn, vs), "target class only on verdict %s" % vs,
                          "the entry keeps/gets the *target* class on a path where the policy verdict is %s "
                          "(allowed only for Match/Steal)" % vs, span)
            else:
                rep.violation(rule, "%s|arm|%s|other" % (fn, vs), "class comes from neither the requested nor the target class: %s" % (cterm,), span)
    return n


def layer1_locals(rep, prog, rule):
    n = 0
    # steal_any: returns Reservation::new(row, target_class, 0)
    fn = "llfree::local::Locals::steal_any"
    b = lib.need_body(prog, fn)
    rep.saw(fn)
    tm = T.Terms(b, prog)
    sites = policy_sites(b)
    if len(sites) != 1:
        rep.violation(rule, "%s|policy-site" % fn, "expected one policy call, found %d" % len(sites), b.span)
    else:
        pb, pt = sites[0]
        a_req = T.canon(tm.operand(pt["args"][0]))
        a_tgt = T.canon(tm.operand(pt["args"][1]))
        rep.check(a_req == ("p", "class"), "R-POLICY-ARGS", "%s|arg0" % fn, "policy(requested = class parameter, ..)",
                  "first policy argument is not the requested class: " + T.show(tm.operand(pt["args"][0])), pt["span"])
        ps = PathSens(b, prog)
        for bi, t in b.calls_to("llfree::local::Reservation::new"):
            c = T.canon(tm.operand(t["args"][1]))
            n += 1
            verdicts = sorted({env.get(("c", pb)) for _, env in ps.states_at_term(bi)}, key=lambda x: (x is None, x))
            names = {0: "Match", 1: "Demote", 2: "Steal", 3: "Invalid", None: "unknown"}
            vs = "/".join(names[v] for v in verdicts)
            if c == a_req:
                rep.ok(rule, "%s|reservation|requested" % fn, "requested class", t["span"])
            elif c == a_tgt:
                good = bool(verdicts) and all(v in (MATCH, STEAL) for v in verdicts)
                rep.check(good, rule, "%s|reservation|target" % fn, "target class reported only on verdict %s" % vs,
                          "steal_any reports the target class on a path where the policy verdict is %s (allowed: Match/Steal)" % vs,
                          t["span"])
            else:
                rep.violation(rule, "%s|reservation|other" % fn, "reported class is neither requested nor target: " + T.show(tm.operand(t["args"][1])), t["span"])
            # the reservation is taken from the slot array of the class that was rated
            for gbi, gt in b.calls_to("llfree::local::Locals::get"):
                gc = T.canon(tm.operand(gt["args"][1]))
                rep.check(gc == a_tgt, rule, "%s|get-class" % fn, "frames are taken from the rated class's slots",
                          "frames are taken from the slots of %s, not of the rated target class" % T.show(tm.operand(gt["args"][1])), gt["span"])
    # demote_any: only Demote-rated targets, caller reports the requested class
    fn = "llfree::local::Locals::demote_any"
    b = lib.need_body(prog, fn)
    rep.saw(fn)
    tm = T.Terms(b, prog)
    sites = policy_sites(b)
    if len(sites) != 1:
        rep.violation(rule, "%s|policy-site" % fn, "expected one policy call, found %d" % len(sites), b.span)
    else:
        pb, pt = sites[0]
        a_req = T.canon(tm.operand(pt["args"][0]))
        rep.check(a_req == ("p", "class"), "R-POLICY-ARGS", "%s|arg0" % fn, "policy(requested = class parameter, ..)",
                  "first policy argument is not the requested class: " + T.show(tm.operand(pt["args"][0])), pt["span"])
        n += 1
    return n


def layer2(rep, prog, rule):
    for fn, inner in (("llfree::trees::Trees::steal", "llfree::trees::Tree::steal"),
                      ("llfree::trees::Trees::reserve_or_steal", "llfree::trees::Tree::reserve_or_steal")):
        b = lib.need_body(prog, fn)
        rep.saw(fn)
        clos = prog.crate("llfree").closures_of(fn)
        good = False
        detail = "no closure calling " + inner
        for cb in clos:
            calls = list(cb.calls_to(inner))
            if not calls:
                continue
            ctm = T.Terms(cb, prog)
            # the value written to the captured Option is map(<inner result>, closure reading Tree::class)
            for bi, si, s in cb.stmts():
                if s["k"] != "assign":
                    continue
                pt_ = ctm.place(s["place"])
                if pt_[0] != "up" and not (pt_[0] == "*" and pt_[1][0] == "up"):
                    continue
                v = ctm.rvalue(s["rv"])
                maps = [x for x in T.walk(v) if x[0] == "call" and x[1] == "core::option::Option::map"]
                for m in maps:
                    if not any(x[0] == "call" and x[1] == inner for x in T.walk(m[2][0])):
                        continue
                    cl = [x for x in T.walk(m[2][1]) if x[0] == "agg" and x[1].startswith("closure:")]
                    if not cl:
                        continue
                    ib = prog.body(cl[0][1][len("closure:"):])
                    if ib is not None and any(callee_name(c["callee"]) == "llfree::trees::Tree::class" for _, c in ib.calls()):
                        good = True
                        detail = "captures class() of the entry returned by " + inner
            # the closure returns that same entry
            rets = [ctm.rvalue(rv) for bi, si, rv in lib.assignments_to_return(cb) if si != "term"]
        rep.check(good, rule, "%s|class-of-new-entry" % fn, detail,
                  "%s does not report the class of the entry produced by %s" % (fn, inner), b.span)
        # requested class / policy forwarded unchanged
        for cb in clos:
            ctm = T.Terms(cb, prog)
            for bi, t in cb.calls_to(inner):
                args = [T.canon(ctm.operand(a)) for a in t["args"]]
                ups = [a for a in args if a[0] == "up"]
                rep.check(("up", "class") in args and ("up", "policy") in args, rule, "%s|forwards" % fn,
                          "class and policy forwarded to the transformer", "class/policy not forwarded unchanged: %s" % (args,), t["span"])


ALLOWED_SRC_CALLS = {
    "llfree::trees::Trees::steal": "as Some",
    "llfree::trees::Trees::reserve_or_steal": "as Some .2",
    "llfree::local::Locals::steal_any": "as Some .class",
}


def layer3(rep, prog, rule):
    n = 0
    for b in prog.crate("llfree").bodies.values():
        tm = None
        for bi, si, s in b.stmts():
            if s["k"] != "assign" or s["rv"]["k"] != "aggregate" or s["rv"]["kind"]["k"] != "tuple":
                continue
            ty = s["place"].get("ty") or b.local_ty(s["place"]["l"])
            if ty.replace("llfree::", "") != "(FrameId, Class)":
                continue
            if tm is None:
                tm = T.Terms(b, prog)
            n += 1
            rep.saw(b.name)
            c = tm.operand(s["rv"]["ops"][1])
            c = _resolve_upvars(prog, b, c)
            cc = T.canon(c)
            kind = None
            if cc in (("p", "class"), ("up", "class")):
                kind = "requested (class parameter)"
            elif cc[0] == "f" and cc[2] == "class" and cc[1] in (("p", "request"), ("up", "request")):
                kind = "requested (request.class)"
            elif cc[0] == "f" and cc[2] in (1,) and any(x[0] == "call" and x[1] == "llfree::Alloc::get" for x in T.walk(c)):
                kind = "forwarded from the inner allocator"
            else:
                calls = [x for x in T.walk(c) if x[0] == "call"]
                for x in calls:
                    if x[1] in ALLOWED_SRC_CALLS:
                        kind = "result of " + x[1].split("::")[-1]

            key = "%s|tuple" % b.name
            rep.check(kind is not None, rule, key, kind or "", "the reported class has an unreviewed source: " + T.show(c), s["span"])
    rep.floor(rule, "(FrameId, Class) constructors", n, 3)


def _resolve_upvars(prog, b, t):
    return lib.resolve_upvars(prog, b, t)


def r_class_roundtrip(rep, prog):
    """The class of a tree entry is stored in a 3-bit field through Class::into_bits / from_bits: both must be the identity, or a
    class written into an entry is read back (and reported) as another class."""
    rule = "R-CLASS-ROUNDTRIP"
    rep.rule(rule, "Class::from_bits(bits) == Class(bits) and Class::into_bits(c) == c.0 (no masking or remapping)")
    ok = True
    detail = []
    for fn, want in (("llfree::Class::from_bits", ("agg", "adt:llfree::Class::Class", (("p", "bits"),))),
                     ("llfree::Class::into_bits", ("f", ("p", "self"), 0))):
        b = prog.body(fn)
        if b is None:
            rep.check(True, rule, fn, "undecided: %s not present" % fn)
            continue
        rep.saw(fn)
        tm = T.Terms(b, prog)
        rets = [T.canon(T.strip_casts(tm.call_term(bi) if si == "term" else tm.rvalue(rv))) for bi, si, rv in lib.assignments_to_return(b)]
        good = rets == [want]
        if not good and len(rets) == 1 and rets[0][0] == "agg" and want[0] == "agg" and rets[0][2]:
            # masking with the full field mask (2^BITS - 1) is the identity on every storable value
            BITS = prog.crate("llfree").const("llfree::Class::BITS")
            inner = rets[0][2][0]
            if inner[0] == "bin" and inner[1] == "BitAnd" and ("p", "bits") in (inner[2], inner[3]) and BITS is not None and \
                    ("c", (1 << BITS) - 1) in (inner[2], inner[3]):
                good = True
        rep.check(good, rule, fn, "identity", "%s is not the identity on the class number (%s): classes are aliased when they are read "
                  "back from a tree entry" % (fn, rets), b.span)


def run(rep, programs):
    prog = programs["core"]
    rule = "R-CLASS-PROV"
    rep.rule(rule, "a class other than the requested one reaches a result only on a path where the policy verdict is Match or Steal")
    rep.rule("R-POLICY-ARGS", "policy(requested, target, free): argument 0 is the requested class, argument 1 the target's class")
    rep.assume("PolicyFn implementations are pure and total (trusted base)")
    n = 0
    n += layer1_tree(rep, prog, "llfree::trees::Tree::steal", rule)
    n += layer1_tree(rep, prog, "llfree::trees::Tree::reserve_or_steal", rule)
    n += layer1_locals(rep, prog, rule)
    rep.floor(rule, "class-selecting sites behind a policy verdict", n, 5)
    layer2(rep, prog, rule)
    layer3(rep, prog, rule)
    r_class_roundtrip(rep, prog)
