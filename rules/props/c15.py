"""C15 — offline trees are never allocated from; online restores them exactly.
R-CHANGE-GUARD, R-RESERVE-BEFORE-LOWER, R-ONLINE-FLOW (DESIGN.md §4 C15)."""
import lib
import terms as T
from facts import callee_name
from pathsens import PathSens

KINDS = ["core"]
LEVEL_TEXT = ("dominance and value-provenance rules over rustc MIR: decides that a tree entry is changed only when unreserved, "
              "class-matching and with enough free frames, that every lower-level allocation is preceded by a successful counter "
              "reservation on the same tree (so a tree whose counter is 0 is never allocated from), and that Online restores the "
              "counter from the lower level for the same tree; histories are not explored")
TECHNIQUE = "control-dependence of the Some(..) results, who-may-call, path-sensitive reservation-before-claim, value provenance"
EXPLANATION = (
    "R-CHANGE-GUARD: every Some result of Tree::change is control dependent on !self.reserved(), on class.is_none_or(|k| k == self.class()) "
    "and on self.free() >= free; the Online arm additionally on self.free() == 0; Offline writes counter 0; the result is stored only "
    "by Trees::change_at through try_update. R-RESERVE-BEFORE-LOWER: each of the Lower::get calls in LLFree is dominated by the success "
    "edge of a counter reservation (Trees::steal / Trees::reserve_or_steal / Locals::get / Locals::steal_any / Locals::demote_any) whose "
    "tree is the one handed to Lower::get (and, for a targeted allocation, filtered by the frame's tree); the transformers take frames "
    "only if self.free() >= n. R-ONLINE-FLOW: the counter written by Online comes from fetch_free, which is "
    "stats_at(i.as_frame(), TREE_ORDER).free_frames of the same tree i."
)

CHANGE = "llfree::trees::Tree::change"
TR = "llfree::trees::Tree::"


def cond_list(b, tm, block):
    out = []
    for s, d in lib.controlling_edges(b, block):
        c = tm.operand(b.term(s)["discr"])
        out.append((c, lib.bool_edge_polarity(b, s, d), lib.switch_value_for_edge(b, s, d), s))
    return out


def r_change_guard(rep, prog):
    rule = "R-CHANGE-GUARD"
    rep.rule(rule, "Tree::change returns Some only for an unreserved, class-matching tree with free >= required; Online only if free == 0")
    b = lib.need_body(prog, CHANGE)
    rep.saw(CHANGE)
    tm = T.Terms(b, prog)
    somes = [(bi, si) for bi, si, rv in lib.assignments_to_return(b) if si != "term" and rv["k"] == "aggregate"
             and rv["kind"].get("variant") == "Some"]
    rep.floor(rule, "Some results of Tree::change", len(somes), 1)
    for bi, si in somes:
        conds = cond_list(b, tm, bi)
        span = b.blocks[bi]["stmts"][si]["span"]
        res = any(c[0] == "call" and c[1] == TR + "reserved" and T.canon(c[2][0]) == ("p", "self") and pol is False for c, pol, _, _ in conds)
        rep.check(res, rule, "change|not-reserved", "requires !self.reserved()",
                  "a reserved tree can be changed: the owning core keeps allocating from a tree that was taken offline / re-onlined", span)
        cls = False
        for c, pol, _, _ in conds:
            if c[0] == "call" and c[1] == "core::option::Option::is_none_or" and pol is True and T.canon(c[2][0]) == ("p", "class"):
                clos = [x for x in T.walk(c[2][1]) if x[0] == "agg" and x[1].startswith("closure:")]
                if clos:
                    cb = prog.body(clos[0][1][len("closure:"):])
                    if cb is not None:
                        ctm = T.Terms(cb, prog)
                        for cbi, csi, crv in lib.assignments_to_return(cb):
                            if csi == "term":
                                ct = ctm.call_term(cbi)
                            else:
                                ct = ctm.rvalue(crv)
                            has_cls = any(x[0] == "call" and x[1] == TR + "class" for x in T.walk(ct))
                            is_eq = (ct[0] == "bin" and ct[1] == "Eq") or (ct[0] == "call" and ct[1].endswith(("PartialEq>::eq", "PartialEq::eq")))
                            cls = has_cls and is_eq
        if not cls:
            cls = lib.option_filter_ok(b, prog, bi, "class", lambda t: t == ("call", TR + "class", (("p", "self"),)))
        rep.check(cls, rule, "change|class-match", "requires class.is_none_or(|k| k == self.class())",
                  "a tree whose class does not match the matcher can be changed", span)
        fr = False
        for c, pol, _, _ in conds:
            cmp_ = lib.normalize_cmp(c) if c[0] == "bin" else None
            if cmp_ and pol is not None:
                lhs, rel, rhs = cmp_ if pol else lib.negate_rel(cmp_)
                if rel == "le" and T.canon(lhs) == ("p", "free") and T.canon(rhs) == ("call", TR + "free", (("p", "self"),)):
                    fr = True
        rep.check(fr, rule, "change|enough-free", "requires self.free() >= free",
                  "a tree with fewer free frames than required can be changed", span)
    # operation arms
    setfree = lib.find_calls(b, TR + "set_free")
    n_on = n_off = 0
    for bi, t in setfree:
        v = tm.operand(t["args"][1])
        conds = cond_list(b, tm, bi)
        if T.const_val(v) == 0:
            n_off += 1
            rep.ok(rule, "change|offline-zero", "Offline sets the counter to 0", t["span"])
        else:
            n_on += 1
            from_fetch = v[0] == "call" and v[1].endswith("ops::function::Fn::call") and T.canon(v[2][0]) == ("p", "fetch_free")
            rep.check(from_fetch, "R-ONLINE-FLOW", "change|online-counter", "Online writes fetch_free()",
                      "Online writes %s instead of fetch_free()" % T.show(v), t["span"])
            zero = False
            for c, pol, _, _ in conds:
                cmp_ = lib.normalize_cmp(c) if c[0] == "bin" else None
                if cmp_ and pol is True and cmp_[1] == "eq":
                    sides = {T.canon(cmp_[0]), T.canon(cmp_[2])}
                    if ("call", TR + "free", (("p", "self"),)) in sides and ("c", 0) in sides:
                        zero = True
            rep.check(zero, rule, "change|online-only-empty", "Online only if self.free() == 0",
                      "Online can overwrite a non-zero counter (frames would be counted twice)", t["span"])
    rep.check(n_on == 1 and n_off == 1, rule, "change|arms", "one Offline and one Online arm",
              "expected one Offline and one Online counter write, found %d/%d" % (n_off, n_on), b.span)
    # who stores the result
    cg, _ = lib.analyses(prog)
    callers = {body.name for body, bi, t in cg.call_sites_of(CHANGE)}
    rep.check(callers == {"llfree::trees::Trees::change_at::{closure#0}"}, rule, "change|only-caller",
              "only Trees::change_at's update closure calls Tree::change", "Tree::change is called from %s" % sorted(callers), b.span)
    ca = lib.need_body(prog, "llfree::trees::Trees::change_at")
    tmc = T.Terms(ca, prog)
    ups = lib.find_calls(ca, "llfree::atomic::Atom::try_update")
    good = len(ups) == 1 and any(x[0] == "agg" and x[1] == "closure:llfree::trees::Trees::change_at::{closure#0}"
                                 for x in T.walk(tmc.operand(ups[0][1]["args"][1])))
    rep.check(good, rule, "change_at|atomic", "applied with try_update on entries[id]", "change is not applied through try_update", ca.span)
    if ups:
        recv = tmc.operand(ups[0][1]["args"][0])
        idx = [x for x in T.walk(recv) if x[0] == "idx"]
        rep.check(bool(idx) and T.canon(idx[0][2]) == ("f", ("p", "id"), 0), rule, "change_at|entry-of-id", "updates entries[id.0]",
                  "updates %s" % T.show(recv), ups[0][1]["span"])
        ps = PathSens(ca, prog)
        for rn in ps.return_nodes():
            env = ps.term_env_of(rn)
            st = env.get(("c", ups[0][0]))
            if st is not None:
                rep.check(ps.ret_discr(rn) == st, rule, "change_at|result", "Ok iff the update was applied",
                          "change_at reports %s although try_update %s" % (ps.ret_discr(rn), st), ca.span)


RESERVATIONS = {
    "llfree::trees::Trees::steal": (1, 1),            # (success value, tree argument index)
    "llfree::trees::Trees::reserve_or_steal": (1, 1),
    "llfree::local::Locals::get": (0, 3),
    "llfree::local::Locals::steal_any": (1, 3),
    "llfree::local::Locals::demote_any": (1, 3),
}


def r_reserve_before_lower(rep, prog):
    rule = "R-RESERVE-BEFORE-LOWER"
    rep.rule(rule, "every Lower::get in LLFree follows a successful counter reservation on the tree it allocates from")
    n = 0
    for b in prog.crate("llfree").bodies.values():
        if not b.name.startswith("llfree::llfree::LLFree::") and "<llfree::llfree::LLFree as" not in b.name:
            continue
        sites = lib.find_calls(b, "llfree::lower::Lower::get")
        if not sites:
            continue
        rep.saw(b.name)
        tm = T.Terms(b, prog)
        ps = PathSens(b, prog)
        res_sites = [(bi, t, RESERVATIONS[callee_name(t["callee"])]) for bi, t in b.calls() if callee_name(t["callee"]) in RESERVATIONS]
        for lb, lt in sites:
            n += 1
            key = "%s|lower-get" % b.name
            states = ps.states_at(lb)
            good = bool(states)
            used = None
            for _, env in states:
                ok_here = [(bi, t) for bi, t, (sv, _) in res_sites if env.get(("c", bi)) == sv]
                if not ok_here:
                    good = False
                else:
                    used = ok_here[-1]
            rep.check(good, rule, key + "|reserved", "preceded by a successful counter reservation",
                      "Lower::get is reachable without a successful counter reservation: it can allocate from a tree whose "
                      "counter is 0 (offline) or frames another core has reserved", lt["span"])
            if not good or used is None:
                continue
            rbi, rt = used
            rname = callee_name(rt["callee"])
            row = tm.operand(lt["args"][1])
            # the row handed to Lower::get belongs to the reserved tree
            rcall = tm.call_term(rbi)
            if rname in ("llfree::trees::Trees::steal", "llfree::trees::Trees::reserve_or_steal"):
                tree = T.canon(tm.operand(rt["args"][1]))
                same = T.canon(row) == ("call", "llfree::trees::TreeId::as_row", (tree,))
            else:
                same = any(T.canon(x) == T.canon(rcall) for x in T.walk(row))
            rep.check(same, rule, key + "|same-tree", "allocates in the tree that was reserved (%s)" % rname.split("::")[-1],
                      "Lower::get allocates at %s, which is not derived from the reservation made by %s" % (T.show(row), rname), lt["span"])
            # a function that receives the requested frame hands it on: the lower level then claims exactly that frame
            fparams = [l_ for l_ in range(1, b.arg_count + 1) if b.local_name(l_) == "frame" and b.local_ty(l_).startswith("core::option::Option<")]
            if fparams:
                fa = T.canon(tm.operand(lt["args"][3]))
                rep.check(fa == ("p", "frame"), rule, key + "|frame-forwarded", "the requested frame is passed to Lower::get",
                          "%s receives the requested frame but calls Lower::get with %s: a targeted allocation returns some other free "
                          "frame of the tree" % (b.name.split("::")[-1], T.show(tm.operand(lt["args"][3]))[:60]), lt["span"])
            # targeted: the reservation was filtered by the frame's tree
            fr = tm.operand(lt["args"][3])
            if not (fr[0] == "agg" and "None" in fr[1]):
                targ = tm.operand(rt["args"][RESERVATIONS[rname][1]])
                if rname.startswith("llfree::trees::"):
                    # steal_global(i, .., frame): i is chosen by the caller (checked under C10 R-GETAT-FALLTHROUGH)
                    rep.ok(rule, key + "|target-filter", "tree chosen by the caller for the targeted frame", lt["span"])
                else:
                    filt = T.mentions_param(targ, "frame") and (T.mentions_call(targ, "core::option::Option::map") or T.mentions_call(targ, "llfree::FrameId::as_tree"))
                    rep.check(filt, rule, key + "|target-filter", "reservation filtered by the target frame's tree",
                              "a targeted allocation reserves from a slot without filtering by the frame's tree: " + T.show(targ), lt["span"])
    rep.floor(rule, "Lower::get call sites in LLFree", n, 3)
    # the transformers take frames only when the counter suffices
    for fn, amount in ((TR + "steal", "free"), (TR + "reserve_or_steal", "free")):
        b = lib.need_body(prog, fn)
        tm = T.Terms(b, prog)
        for bi, si, rv in lib.assignments_to_return(b):
            if si == "term" or rv["k"] != "aggregate" or rv["kind"].get("variant") != "Some":
                continue
            good = False
            for c, pol, _, _ in cond_list(b, tm, bi):
                cmp_ = lib.normalize_cmp(c) if c[0] == "bin" else None
                if cmp_ and pol is not None:
                    lhs, rel, rhs = cmp_ if pol else lib.negate_rel(cmp_)
                    if rel == "le" and T.canon(lhs) == ("p", amount) and T.canon(rhs) == ("call", TR + "free", (("p", "self"),)):
                        good = True
            rep.check(good, rule, "%s|counter-guard" % fn, "takes frames only if self.free() >= n",
                      "%s can succeed although the counter is smaller than the request (an offline tree has counter 0)" % fn,
                      b.blocks[bi]["stmts"][si]["span"])
    r_filter_honoured(rep, prog, rule)


def r_filter_honoured(rep, prog, rule="R-RESERVE-BEFORE-LOWER"):
    """The reservation counter that is charged belongs to the requested tree: LocalTree::get hands out a reservation only if
    no tree was named or its own tree is the named one, LocalTree::put only adds to the reservation of that tree, and the
    Locals front ends forward their `tree` argument to it."""
    LT = "llfree::local::LocalTree::"
    g = lib.need_body(prog, LT + "get")
    rep.saw(LT + "get")
    gtm = T.Terms(g, prog)
    somes = [bi for bi, si, rv in lib.assignments_to_return(g) if si != "term" and rv["k"] == "aggregate" and rv["kind"].get("variant") == "Some"]
    ok = bool(somes)
    for bi in somes:
        hit = False
        for s_, d_ in lib.controlling_edges(g, bi):
            c = gtm.operand(g.term(s_)["discr"])
            pol = lib.bool_edge_polarity(g, s_, d_)
            if c[0] == "call" and c[1] == "core::option::Option::is_none_or" and pol is True and T.canon(c[2][0]) == ("p", "tree"):
                clos = [x for x in T.walk(c[2][1]) if x[0] == "agg" and x[1].startswith("closure:")]
                cb = prog.body(clos[0][1][len("closure:"):]) if clos else None
                if cb is not None:
                    ctm = T.Terms(cb, prog)
                    for rb, si, rv in lib.assignments_to_return(cb):
                        r = T.canon(ctm.call_term(rb) if si == "term" else ctm.rvalue(rv))
                        is_eq = (r[0] == "call" and r[1].endswith(("PartialEq>::eq", "PartialEq::eq"))) or (r[0] == "bin" and r[1] == "Eq")
                        args = r[2] if r[0] == "call" else (r[2], r[3])
                        own = ("call", "llfree::bitfield::RowId::as_tree", (("call", LT + "row", (("up", "self"),)),))
                        if is_eq and own in args and any(a[0] == "p" for a in args):
                            hit = True
            if c[0] == "discr" and T.canon(T.strip_refs(c[1])) == ("p", "tree") and False:
                pass
        if not hit:
            hit = lib.option_filter_ok(g, prog, bi, "tree", lambda t: t == ("call", "llfree::bitfield::RowId::as_tree", (("call", LT + "row", (("p", "self"),)),)))
        ok = ok and hit
    rep.check(ok, rule, "LocalTree::get|tree-filter", "a reservation is charged only if no tree is named or it reserves the named tree",
              "LocalTree::get hands out a reservation without `tree.is_none_or(|i| self.row().as_tree() == i)`: a targeted "
              "allocation charges a reservation of another tree, whose counter then disagrees with its bitfields", g.span)
    p_ = lib.need_body(prog, LT + "put")
    ptm = T.Terms(p_, prog)
    somes = [bi for bi, si, rv in lib.assignments_to_return(p_) if si != "term" and rv["k"] == "aggregate" and rv["kind"].get("variant") == "Some"]
    ok = bool(somes)
    for bi in somes:
        hit = False
        for s_, d_ in lib.controlling_edges(p_, bi):
            c = T.canon(ptm.operand(p_.term(s_)["discr"]))
            pol = lib.bool_edge_polarity(p_, s_, d_)
            is_eq = (c[0] == "call" and c[1].endswith(("PartialEq>::eq", "PartialEq::eq"))) or (c[0] == "bin" and c[1] == "Eq")
            is_ne = (c[0] == "call" and c[1].endswith(("PartialEq>::ne", "PartialEq::ne"))) or (c[0] == "bin" and c[1] == "Ne")
            args = (c[2] if c[0] == "call" else (c[2], c[3])) if (is_eq or is_ne) else ()
            own = ("call", "llfree::bitfield::RowId::as_tree", (("call", LT + "row", (("p", "self"),)),))
            if own in args and ("p", "tree") in args and ((is_eq and pol is True) or (is_ne and pol is False)):
                hit = True
        ok = ok and hit
    rep.check(ok, rule, "LocalTree::put|same-tree", "frames are added only to the reservation of their own tree",
              "LocalTree::put adds frames to a reservation without `self.row().as_tree() == tree`", p_.span)
    for fn, idx in (("llfree::local::Locals::get", None), ("llfree::local::Locals::demote_any", None)):
        fwd = False
        for cb in prog.crate("llfree").closures_of(fn):
            ctm = T.Terms(cb, prog)
            for bi, t in cb.calls_to(LT + "get"):
                fwd = fwd or T.canon(ctm.operand(t["args"][1])) == ("up", "tree")
        rep.check(fwd, rule, "%s|forwards-tree" % fn, "forwards its tree filter to LocalTree::get",
                  "%s does not pass its `tree` argument on to LocalTree::get" % fn, lib.need_body(prog, fn).span)
    sa = lib.need_body(prog, "llfree::local::Locals::steal_any")
    stm = T.Terms(sa, prog)
    fwd = any(T.canon(stm.operand(t["args"][3])) == ("p", "tree") for bi, t in sa.calls_to("llfree::local::Locals::get"))
    rep.check(fwd, rule, "Locals::steal_any|forwards-tree", "forwards its tree filter to Locals::get",
              "Locals::steal_any does not pass its `tree` argument on", sa.span)


def r_online_flow(rep, prog):
    rule = "R-ONLINE-FLOW"
    rep.rule(rule, "the counter restored by Online is stats_at(i.as_frame(), TREE_ORDER).free_frames of the tree being changed")
    fn = "<llfree::llfree::LLFree as llfree::Alloc>::change_tree"
    b = lib.need_body(prog, fn)
    rep.saw(fn)
    c = lib.need_body(prog, fn + "::{closure#0}")
    ctm = T.Terms(c, prog)
    tree_order = prog.crate("llfree").const("llfree::TREE_ORDER")
    good = False
    detail = ""
    for bi, si, rv in lib.assignments_to_return(c):
        t = ctm.call_term(bi) if si == "term" else ctm.rvalue(rv)
        detail = T.show(t)
        sa = [x for x in T.walk(t) if x[0] == "call" and x[1] in ("<llfree::llfree::LLFree as llfree::Alloc>::stats_at", "llfree::lower::Lower::stats_at")]
        if sa and t[0] == "f" and t[3] == "free_frames":
            fr = T.canon(sa[0][2][1])
            od = T.const_val(sa[0][2][2])
            good = fr == ("call", "llfree::trees::TreeId::as_frame", (("p", c.local_name(2) or "_2"),)) and od == tree_order
            if not good and od == tree_order:
                # the same frame spelled differently (FrameId(i.0 * TREE_FRAMES), ...)
                good = lib.index_eq(prog, sa[0][2][1], ("call", "llfree::trees::TreeId::as_frame", (("p", 2, c.local_name(2) or "_2"),), None))
    rep.check(good, rule, "change_tree|fetch_free", "fetch_free(i) = stats_at(i.as_frame(), TREE_ORDER).free_frames",
              "fetch_free is " + detail, c.span)
    tmb = T.Terms(b, prog)
    ch = lib.find_calls(b, "llfree::trees::Trees::change")
    rep.check(len(ch) == 1 and any(x[0] == "agg" and x[1] == "closure:" + c.name for x in T.walk(tmb.operand(ch[0][1]["args"][3]))),
              rule, "change_tree|passes-fetch_free", "passes the closure to Trees::change", "change_tree does not pass its fetch_free closure", b.span)
    # Trees::change: fetch_free is applied to the id given to change_at
    tc = lib.need_body(prog, "llfree::trees::Trees::change")
    rep.saw(tc.name)
    n = 0
    for cb in [tc] + prog.crate("llfree").closures_of(tc.name):
        ctm2 = T.Terms(cb, prog)
        for bi, t in cb.calls_to("llfree::trees::Trees::change_at"):
            n += 1
            idt = T.canon(ctm2.operand(t["args"][1]))
            ff = ctm2.operand(t["args"][5])
            clos = [x for x in T.walk(ff) if x[0] == "agg" and x[1].startswith("closure:")]
            good = False
            if clos:
                inner = prog.body(clos[0][1][len("closure:"):])
                names = [u["name"] for u in inner.j.get("upvars", [])]
                caps = dict(zip(names, clos[0][2]))
                itm = T.Terms(inner, prog)
                for ibi, it in inner.calls():
                    if (callee_name(it["callee"]) or "").endswith("ops::function::Fn::call"):
                        arg = itm.operand(it["args"][1])
                        if arg[0] == "agg" and arg[2]:
                            a0 = arg[2][0]
                            if a0[0] == "up" and a0[1] in caps:
                                good = T.canon(T.strip_refs(caps[a0[1]])) == idt
            rep.check(good, rule, "%s|same-id" % cb.name, "fetch_free is evaluated for the tree passed to change_at",
                      "fetch_free is evaluated for a different tree than the one being changed", t["span"])
    rep.floor(rule, "change_at call sites", n, 1)
    # the trait-level query the closure calls is the lower level's answer, whatever the frame: a guard in between that
    # answers "nothing free" for some valid tree makes Online install 0 for it
    used_trait = any(callee_name(t["callee"]) == "<llfree::llfree::LLFree as llfree::Alloc>::stats_at" for _, t in c.calls())
    if used_trait:
        sb = lib.need_body(prog, "<llfree::llfree::LLFree as llfree::Alloc>::stats_at")
        rep.saw(sb.name)
        stm = T.Terms(sb, prog)
        rets = lib.assignments_to_return(sb)
        good = bool(rets)
        for bi, si, rv in rets:
            t = stm.call_term(bi) if si == "term" else stm.rvalue(rv)
            t = T.canon(t)
            good = good and t[0] == "call" and t[1] == "llfree::lower::Lower::stats_at" and t[2][1:] == (("p", "frame"), ("p", "order"))
        rep.check(good, rule, "LLFree::stats_at|forwards", "every result is lower.stats_at(frame, order)",
                  "LLFree::stats_at (what Online rebuilds a tree counter from) does not return lower.stats_at(frame, order) on every path", sb.span)


def run(rep, programs):
    prog = programs["core"]
    r_change_guard(rep, prog)
    r_reserve_before_lower(rep, prog)
    r_online_flow(rep, prog)
    # a change without a tree id finds its tree with Trees::search: the search has to visit every tree
    from props import c10
    c10.r_global_search(rep, prog)
    from props import c08
    c08.r_err_kinds(rep, prog)       # change_at reports a non-matching tree as Memory, which is what the search continues on
    tc = lib.need_body(prog, "llfree::trees::Trees::change")
    ttm = T.Terms(tc, prog)
    ss = lib.find_calls(tc, "llfree::trees::Trees::search")
    good = False
    if len(ss) == 1:
        a = [ttm.operand(x) for x in ss[0][1]["args"]]
        good = T.const_val(a[2]) == 0 and T.canon(a[3]) in (("call", "llfree::trees::Trees::len", (("p", "self"),)),) or (
            T.const_val(a[2]) == 0 and a[3][0] == "call" and a[3][1] == "slice::len")
    if len(ss) == 1:
        ml = [l_ for l_ in range(1, tc.arg_count + 1) if tc.local_name(l_) == "matcher"]
        pss = PathSens(tc, prog)
        sts = pss.states_at(ss[0][0])
        only_none = bool(ml) and bool(sts) and all(env.get(("d", ml[0], (".0",))) == 0 or env.get(("d", ml[0], ("f0",))) == 0 or
                                                    any(k[0] == "d" and k[1] == ml[0] and v == 0 for k, v in env.items()) for _, env in sts)
        rep.check(only_none, "R-CHANGE-GUARD", "Trees::change|search-only-without-id", "the match-based search runs only for requests without an id",
                  "a request that names a tree id can fall into the match-based search (e.g. when the id is out of range): the change is "
                  "applied to some other tree that matches class/free", ss[0][1]["span"])
    rep.check(good, "R-CHANGE-GUARD", "Trees::change|search-domain", "a change without id searches all trees: search(_, 0, self.len(), ..)",
              "Trees::change does not search the whole tree array (offset/len arguments changed)", tc.span)
    # the tree id given to change_tree / Online selects entries[..] and, times TREE_FRAMES, the frames whose statistics are restored
    from props import c01
    c01.r_units(rep, prog)
