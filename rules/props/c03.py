"""C03 — concurrent calls never panic and frees of held blocks always succeed.
Claimed clauses (each necessary in every interleaving): R-UNDO-RANGE, R-UNRESERVE-OWNED,
R-SPLIT-ORDER, R-BLIND-WRITES, R-WAIT-PANIC. DESIGN.md §4 C03."""
import lib
import multicas
import terms as T
from facts import callee_name
from pathsens import PathSens
from props import c01

KINDS = ["core"]
LEVEL_TEXT = ("structural rules over rustc MIR that are necessary for panic-freedom under every interleaving: rollbacks touch only "
              "words this call acquired, unreserve is only applied to reservations this call removed, the split fills the bitfield "
              "before clearing the huge marker, shared words are only taken atomically, and no panic depends on another thread's "
              "progress; schedules are not explored")
TECHNIQUE = "rollback-range rule, value provenance of unreserved trees, edge dominance, who-may-call, control dependence of panic sites on wait primitives"
EXPLANATION = (
    "R-UNDO-RANGE: see C01 (a rollback that touches a word another thread owns trips the `Failed undo` expect). "
    "R-UNRESERVE-OWNED: Trees::unreserve panics unless the tree is reserved; each call site passes a tree taken from a reservation this "
    "call removed from a slot (Locals::swap result, drain callback argument, demote_any's old reservation) or reserved itself "
    "(reserve_or_steal with reserved == true on that path), together with that reservation's class. R-SPLIT-ORDER: partial_put_huge "
    "fills the bitfield (toggle(FrameId(0), ORDER, false)) before it CASes the huge marker away. R-BLIND-WRITES: reservation slots, "
    "bitfield rows and entries are only taken with swap/CAS/try_update outside initialisation (a load-then-store loses a concurrent "
    "update). R-WAIT-PANIC: no panic is control dependent on the outcome of waiting for another thread. "
    "R-BALANCE / R-RESERVE-BEFORE-LOWER (shared with C04/C15): every path gives back what it took, and charges the tree it allocates "
    "from - otherwise the counter assertions (`free <= TREE_FRAMES`) fire in a later, well-behaved free."
)


def r_unreserve_owned(rep, prog):
    rule = "R-UNRESERVE-OWNED"
    rep.rule(rule, "every Trees::unreserve(tree, free, class) names a reservation this call took out of a slot or made itself")
    cg, _ = lib.analyses(prog)
    sites = cg.call_sites_of("llfree::trees::Trees::unreserve")
    n = 0
    for b, bi, t in sites:
        if b.crate.name != "llfree":
            continue
        n += 1
        rep.saw(b.name)
        tm = T.Terms(b, prog)
        tree = tm.operand(t["args"][1])
        cls = tm.operand(t["args"][3])
        key = "%s|unreserve" % b.name
        ct = T.canon(tree)
        src = None
        cls_ok = None
        if b.name.endswith("drain::{closure#0}"):
            if ct == ("call", "llfree::bitfield::RowId::as_tree", (("p", "row"),)):
                src = "drain callback argument"
                cls_ok = T.canon(cls) == ("p", "class")
        for x in T.walk(tree):
            if x[0] == "call" and x[1] == "llfree::local::Locals::swap":
                src = "reservation swapped out of the slot"
                # class = the class whose slot was swapped
                cls_ok = T.canon(cls) == T.canon(x[2][1])
            if x[0] == "call" and x[1] == "llfree::local::Locals::demote_any":
                src = "old reservation returned by demote_any"
                cls_ok = any(y[0] == "call" and y[1] == "llfree::local::Locals::demote_any" for y in T.walk(cls))
        if src is None and ct == ("p", "i"):
            # own reservation: reserve_or_steal succeeded with reserved == true on every path to this call
            ps = PathSens(b, prog)
            rs = lib.find_calls(b, "llfree::trees::Trees::reserve_or_steal")
            if len(rs) == 1:
                rb, rt = rs[0]
                dl = rt["dest"]["l"]
                states = ps.states_at(bi)
                swaps = [sb for sb, _ in lib.find_calls(b, "llfree::local::Locals::swap")]
                # ... and the reservation has not been handed to a slot yet on this path
                good = bool(states) and all(env.get(("c", rb)) == 1 and env.get(("pv", dl, ("as1", ".0", ".0"))) == 1
                                            and all(env.get(("c", sb)) is None for sb in swaps) for _, env in states)
                reach_swap = any(bi in lib.cfg.reachable_from(b, sb) for sb in swaps)
                good = good and not reach_swap
                same = T.canon(tm.operand(rt["args"][1])) == ("p", "i")
                if good and same:
                    src = "tree reserved by this call (reserved == true)"
                    # class: the class reported for the reservation
                    cls_ok = any(y[0] == "call" and y[1] == "llfree::trees::Trees::reserve_or_steal" for y in T.walk(cls))
        rep.check(src is not None, rule, key + "|owned", src or "",
                  "Trees::unreserve(%s, ..) is applied to a tree this call did not take out of a slot or reserve itself: under "
                  "contention it can be unreserved twice and `Unreserve failed` panics" % T.show(tree), t["span"])
        if src is not None:
            rep.check(bool(cls_ok), rule, key + "|class", "with the class of that reservation",
                      "unreserve is given class %s, which is not the class of the reservation being returned" % T.show(cls), t["span"])
    rep.floor(rule, "Trees::unreserve call sites", n, 2)
    # Trees::unreserve itself: expect on try_update(unreserve_add)
    b = lib.need_body(prog, "llfree::trees::Trees::unreserve")
    tm = T.Terms(b, prog)
    up = lib.find_calls(b, "llfree::atomic::Atom::try_update")
    good = len(up) == 1
    if good:
        recv = tm.operand(up[0][1]["args"][0])
        idx = [x for x in T.walk(recv) if x[0] == "idx"]
        good = bool(idx) and T.canon(idx[0][2]) == ("f", ("p", "i"), 0)
    rep.check(good, rule, "Trees::unreserve|entry", "updates entries[i.0] atomically", "Trees::unreserve does not update entries[i.0] with try_update", b.span)


def r_split_order(rep, prog):
    rule = "R-SPLIT-ORDER"
    rep.rule(rule, "partial_put_huge: fill the bitfield, then clear the huge marker (CAS old -> 0 free), then free the part")
    fn = "llfree::lower::Lower::partial_put_huge"
    b = lib.need_body(prog, fn)
    rep.saw(fn)
    tm = T.Terms(b, prog)
    ps = PathSens(b, prog)
    tg = lib.find_calls(b, "llfree::bitfield::Bitfield::toggle")
    cas = lib.find_calls(b, "llfree::atomic::Atom::compare_exchange")
    ps_small = lib.find_calls(b, "llfree::lower::Lower::put_small")
    if len(tg) != 1 or len(cas) != 1 or len(ps_small) != 1:
        rep.violation(rule, "partial_put_huge|shape", "expected one toggle, one compare_exchange and one put_small (found %d/%d/%d)" % (
            len(tg), len(cas), len(ps_small)), b.span)
        return
    tb, tt = tg[0]
    cb, ct = cas[0]
    a = [tm.operand(x) for x in tt["args"]]
    order = prog.crate("llfree").const("llfree::bitfield::Bitfield::ORDER")
    good = (a[1][0] == "agg" and T.const_val(a[1][2][0]) == 0 and T.const_val(a[2]) == order and T.const_val(a[3]) == 0)
    rep.check(good, rule, "partial_put_huge|fill-args", "fills the whole bitfield: toggle(FrameId(0), ORDER, false)",
              "the fill is toggle(%s, %s, %s)" % (T.show(a[1]), T.show(a[2]), T.show(a[3])), tt["span"])
    sel_ok = T.canon(a[0]) == ("call", "llfree::lower::Lower::bitfield", (("p", "self"), ("call", "llfree::FrameId::as_huge", (("p", "frame"),))))
    rep.check(sel_ok, rule, "partial_put_huge|fill-bitfield",
              "of the frame's huge frame", "fills bitfield %s" % T.show(a[0]), tt["span"])
    states = ps.states_at(cb)
    bad = [e for _, e in states if e.get(("c", tb)) != 0]
    rep.check(bool(states) and not bad, rule, "partial_put_huge|fill-before-marker",
              "the marker CAS runs only after the fill succeeded",
              "the huge marker can be cleared before/without the bitfield being filled: a concurrent free of another part sees a "
              "non-huge entry over an all-zero bitfield and fails", ct["span"])
    ca = [T.canon(tm.operand(x)) for x in ct["args"]]
    rep.check(ca[1] == ("p", "old") and ca[2] == ("call", "llfree::lower::HugeEntry::new", ()), rule, "partial_put_huge|marker-cas",
              "CAS(old -> HugeEntry::new())", "marker CAS exchanges (%s -> %s)" % (T.show(tm.operand(ct["args"][1])), T.show(tm.operand(ct["args"][2]))), ct["span"])
    recv = tm.operand(ct["args"][0])
    idx = [x for x in T.walk(recv) if x[0] == "idx"]
    rep.check(bool(idx) and T.mentions_call(idx[0][2], "llfree::lower::HugeId::child_idx") and T.mentions_param(idx[0][2], "frame"),
              rule, "partial_put_huge|marker-entry", "on the frame's own entry", "marker CAS targets %s" % T.show(recv), ct["span"])
    # put_small runs after (every path to put_small passed the toggle attempt)
    sb, st = ps_small[0]
    states = ps.states_at(sb)
    rep.check(all(e.get(("c", tb)) is not None for _, e in states), rule, "partial_put_huge|free-after-split",
              "the part is freed after the split attempt", "put_small can run before the split", st["span"])
    # caller: only for entries loaded as huge (C02 R-PUT-DISPATCH checks the guard)


def r_wait_panic(rep, prog):
    rule = "R-WAIT-PANIC"
    rep.rule(rule, "no panic site is control dependent on the result of waiting for another thread (spin_wait / spin_loop)")
    cg, _ = lib.analyses(prog)
    entry = [n for n in cg.bodies if n.startswith("<llfree::llfree::LLFree as llfree::Alloc>::")]
    reach = cg.reachable(entry)
    n_wait = 0
    for name in sorted(reach):
        b = cg.bodies.get(name)
        if b is None or b.crate.name != "llfree":
            continue
        waits = [(bi, t) for bi, t in b.calls() if callee_name(t["callee"]) in lib.WAIT_PRIMS]
        if not waits:
            continue
        tm = T.Terms(b, prog)
        for wb, wt in waits:
            n_wait += 1
            # panic blocks controlled by a switch on the wait's result
            hit = False
            for bi, t in b.calls():
                cn = callee_name(t["callee"])
                if not lib.is_panic_callee(cn):
                    continue
                for s, d in lib.controlling_edges(b, bi):
                    c = tm.operand(b.term(s)["discr"])
                    if any(x[0] == "call" and x[1] == callee_name(wt["callee"]) for x in T.walk(c)):
                        hit = True
                        msg = [tm.operand(a) for a in t["args"]]
                        rep.violation(rule, "%s|panic-after-wait" % name,
                                      "`%s` is reached when %s gives up: the call waits (bounded by RETRIES) for another thread's "
                                      "progress and panics if that thread is descheduled" % (
                                          " ".join(T.show(m) for m in msg)[:80], callee_name(wt["callee"]).split("::")[-1]), t["span"])
            if not hit:
                rep.ok(rule, "%s|wait" % name, "wait result does not lead to a panic", wt["span"])
    rep.check(True, rule, "scan", "%d wait sites reachable from the API scanned" % n_wait)


def r_spin_wait(rep, prog):
    """util::spin_wait(n, cond) is the only waiting primitive: it reports success exactly when cond() returned true and gives up
    after n polls (bounded). A negated test makes every waiter proceed before the condition holds."""
    rule = "R-SPIN-WAIT"
    rep.rule(rule, "spin_wait returns true only after cond() returned true, false after at most n polls")
    b = prog.body("llfree::util::spin_wait")
    if b is None:
        rep.check(True, rule, "spin_wait", "no spin_wait primitive in this tree")
        return
    rep.saw(b.name)
    tm = T.Terms(b, prog)
    from props.c10 import loop_info, iter_loop_header
    ps = PathSens(b, prog, track=lambda n: bool(n) and n.endswith("ops::function::FnMut::call_mut"))
    conds = [bi for bi, t in b.calls() if (callee_name(t["callee"]) or "").endswith("ops::function::FnMut::call_mut")]
    good = bool(conds)
    detail = "no cond() call"
    for rn in ps.return_nodes():
        env = ps.term_env_of(rn)
        rv = env.get(("v", 0))
        last = [env.get(("c", c)) for c in conds]
        if rv == 1 and not any(x == 1 for x in last):
            good, detail = False, "returns true on a path where cond() was not true"
        if rv is None:
            good, detail = False, "return value not decided on a path"
    loops = loop_info(b)
    bounded = len(loops) == 1
    if bounded:
        info = iter_loop_header(b, tm, loops[0][0])
        rng = [x for x in T.walk(info[0][2][0]) if x[0] == "agg" and x[1].startswith("adt:core::ops::range::Range::Range")] if info else []
        bounded = bool(rng) and T.const_val(rng[0][2][0]) == 0 and T.canon(rng[0][2][1]) == ("p", "n")
    rep.check(good, rule, "spin_wait|result", "true iff the last cond() was true", "spin_wait: " + detail, b.span)
    rep.check(bounded, rule, "spin_wait|bounded", "polls at most n times (for _ in 0..n)", "spin_wait does not poll exactly 0..n times", b.span)


def run(rep, programs):
    prog = programs["core"]
    multicas.check_undo_range(rep, prog, "R-UNDO-RANGE", lib.need_body)
    r_unreserve_owned(rep, prog)
    r_split_order(rep, prog)
    c01.r_blind_writes(rep, prog)
    r_wait_panic(rep, prog)
    r_spin_wait(rep, prog)
    from props import c09
    c09.r_reserved_class_stable(rep, prog)   # a free by another thread must not change the class under a live reservation
    # counters stay consistent with the bitfields (otherwise the counter assertions in Tree::put / unreserve fire)
    from props import c04, c15
    c04.r_balance(rep, prog)
    c15.r_reserve_before_lower(rep, prog)


def r_set_start_same_tree(rep, prog):
    """get_local moves the search hint of its slot after a successful allocation. Between the slot's CAS and this update another
    caller may have replaced the reservation: the hint may only be written into a reservation of the *same tree*, or the slot
    claims a tree it does not hold (and the one it holds is orphaned) - the next drain panics in `Unreserve failed`."""
    rule = "R-SET-START-SAME-TREE"
    rep.rule(rule, "LocalTree::set_start yields Some(self.with_row(row)) only if the slot is present and holds a reservation of row's tree")
    fn = "llfree::local::LocalTree::set_start"
    b = prog.body(fn)
    if b is None:
        rep.check(True, rule, "set_start|same-tree", "undecided: no LocalTree::set_start")
        rep.note("%s: LocalTree::set_start not found; the hint update is undecided" % rule)
        return
    rep.saw(fn)
    tm = T.Terms(b, prog)
    n = 0
    for bi, si, rv in lib.assignments_to_return(b):
        if si == "term" or not (rv["k"] == "aggregate" and rv["kind"].get("variant") == "Some"):
            continue
        n += 1
        span = b.blocks[bi]["stmts"][si]["span"]
        val = T.canon(tm.operand(rv["ops"][0]))
        rep.check(val[0] == "call" and val[1].endswith("LocalTree::with_row") and val[2] == (("p", "self"), ("p", "row")), rule,
                  "set_start|value", "the update only replaces the row", "set_start installs %s" % str(val)[:120], span)
        same = present = False
        for s, d in lib.controlling_edges(b, bi):
            c = T.canon(tm.operand(b.term(s)["discr"]))
            pol = lib.bool_edge_polarity(b, s, d)
            if c[0] == "call" and c[1].endswith("LocalTree::present") and pol is True:
                present = True
            trees = [x for x in T.walk(c) if x[0] == "call" and x[1].endswith("RowId::as_tree")]
            args = {x[2][0] for x in trees}
            own = ("call", "llfree::local::LocalTree::row", (("p", "self"),))
            is_eq = (c[0] == "call" and c[1].endswith("PartialEq>::eq")) or (c[0] == "bin" and c[1] == "Eq")
            is_ne = (c[0] == "call" and c[1].endswith("PartialEq::ne")) or (c[0] == "bin" and c[1] == "Ne")
            if own in args and ("p", "row") in args and ((is_eq and pol is True) or (is_ne and pol is False)):
                same = True
        rep.check(present, rule, "set_start|present", "only a present reservation is updated",
                  "set_start updates a slot without testing that it holds a reservation", span)
        rep.check(same, rule, "set_start|same-tree", "only if self.row().as_tree() == row.as_tree()",
                  "set_start writes the new row into the slot although the slot may hold a reservation of another tree "
                  "(replaced by another caller since this caller's allocation): the slot then claims a tree it does not hold", span)
    rep.floor(rule, "Some results of set_start", n, 1)


_run_c03h = run


def run(rep, programs):  # noqa: F811
    _run_c03h(rep, programs)
    r_set_start_same_tree(rep, programs["core"])
