"""C21 — every call finishes in bounded steps once it runs without interference.
Claimed as structure: R-LOOPS, R-RECURSION, R-NOWAIT (DESIGN.md §4 C21)."""
import cfg
import lib
import terms as T
from facts import callee_name
from props.c10 import loop_info, iter_loop_header

KINDS = ["core"]
LEVEL_TEXT = ("termination-shape rules over the call graph and CFGs reachable from the API: every loop is a bounded-iterator loop, the only "
              "retry loops are the CAS loops of core's atomics (retry only after interference), recursion is bounded, and no call waits "
              "for another thread; an actual step bound is not computed")
TECHNIQUE = "natural-loop classification (iterator-bounded vs other), call-graph SCCs, who-may-call of wait primitives"
EXPLANATION = (
    "R-LOOPS: every natural loop in a function reachable from the LLFree API is headed by Iterator::next on an iterator built only from "
    "bounded sources (ranges, slice iterators, chunks, step_by, enumerate, rev, zip, map, flatten, filter over those) and can exit on "
    "None; closures handed to Atom::try_update/update (whose CAS retry loops live in core and retry only after a failed CAS, i.e. "
    "interference) are loop-free and call only loop-free functions. R-RECURSION: the API call graph has no cycle except get_local's "
    "self call, which is dominated by `sync == true` and passes `false`. R-NOWAIT: no reachable call to a wait primitive "
    "(spin_wait, spin_loop, locks, parking)."
)

API_PREFIX = "<llfree::llfree::LLFree as llfree::Alloc>::"
DIAGNOSTIC = ("validate", "name", "fmt")
BOUNDED_ITER_HEADS = {"Range", "RangeInclusive", "Iter", "IterMut", "Chunks", "ChunksExact", "StepBy", "Enumerate", "Rev", "Zip", "Map",
                      "Flatten", "Filter", "IntoIter", "Copied", "Cloned", "Take", "Skip", "Windows", "ChunksMut", "FlatMap", "Peekable"}
UNBOUNDED = {"RangeFrom", "Repeat", "RepeatWith", "Cycle", "FromFn", "Successors", "RepeatN"}


def iter_type_bounded(ty):
    import re
    heads = re.findall(r"([A-Za-z_][A-Za-z_0-9]*)\s*<", ty) + re.findall(r"::([A-Za-z_][A-Za-z_0-9]*)$", ty)
    names = set(re.findall(r"(?:^|::|<|\s|\()([A-Z][A-Za-z0-9]*)", ty))
    if names & UNBOUNDED:
        return False, sorted(names & UNBOUNDED)
    return True, []


def reachable_api(prog):
    cg, _ = lib.analyses(prog)
    roots = [n for n in cg.bodies if n.startswith(API_PREFIX) and "::{closure" not in n and n.rsplit("::", 1)[-1] not in DIAGNOSTIC]
    roots += [n for n in cg.bodies if (n.startswith("<llfree::wrapper::ZoneAlloc as llfree::Alloc>::") or n.startswith(
        "<llfree::wrapper::NvmAlloc as llfree::Alloc>::")) and "::{closure" not in n and n.rsplit("::", 1)[-1] not in DIAGNOSTIC]
    roots += ["llfree::wrapper::NvmAlloc::create", "llfree::wrapper::ZoneAlloc::create"]
    reach = cg.reachable(roots)
    # diagnostics are kept apart
    reach = {n for n in reach if not (n.startswith("<") and "core::fmt::Debug>::fmt" in n)}
    return cg, roots, reach


def run(rep, programs):
    prog = programs["core"]
    cg, roots, reach = reachable_api(prog)
    local = sorted(n for n in reach if n in cg.bodies and cg.bodies[n].crate.name == "llfree")
    rep.floor("R-LOOPS", "functions reachable from the API", len(local), 50)
    # ---- R-LOOPS
    rule = "R-LOOPS"
    rep.rule(rule, "every loop reachable from the API is a bounded-iterator loop that can exit on None")
    n_loops = 0
    loopy = set()
    for name in local:
        b = cg.bodies[name]
        loops = loop_info(b)
        if not loops:
            continue
        tm = T.Terms(b, prog)
        # irreducible / non-natural cycles: SCCs not covered by natural loops
        for h, blocks, exits in loops:
            n_loops += 1
            loopy.add(name)
            info = iter_loop_header(b, tm, h)
            key = "%s|loop@%s" % (name, _loop_id(b, tm, h, info))
            if info is None:
                rep.violation(rule, key, "a loop that is not driven by an iterator (`loop`/`while`): it can retry or wait without bound",
                              b.term(h).get("span") or b.span)
                continue
            t = b.term(h)
            itl = t["args"][0]
            ity = None
            if itl["k"] in ("copy", "move"):
                ity = b.local_ty(itl["place"]["l"])
            ok, bad = iter_type_bounded(ity or "")
            can_exit = any(a == info[1] and d in info[2] for a, d in exits) or any(d in info[2] for a, d in exits)
            none_leaves = bool(info[2]) and all(nt not in blocks for nt in info[2])
            rep.check(ok and none_leaves, rule, key, "bounded iterator %s, exits on None" % (ity or "?").replace("&mut ", "")[:90],
                      "loop over %s is not bounded (%s) or does not leave on None" % (ity, bad), t.get("span"))
        # any cycle in the CFG must be inside a natural loop (reducibility)
        comps = [c for c in cfg.sccs(list(cfg.entry_reachable(b)), b.succ) if len(c) > 1 or (len(c) == 1 and c[0] in b.succ(c[0]))]
        covered = set()
        for h, blocks, exits in loops:
            covered |= blocks
        for c in comps:
            if not set(c) <= covered:
                rep.violation(rule, "%s|irreducible-cycle" % name, "CFG cycle outside any natural loop", b.span)
    rep.floor(rule, "loops reachable from the API", n_loops, 10)
    # closures passed to the CAS retry loops are loop-free and reach only loop-free local functions
    n_cl = 0
    for name in local:
        b = cg.bodies[name]
        for bi, t in b.calls():
            cn = callee_name(t["callee"]) or ""
            if cn not in ("llfree::atomic::Atom::try_update", "llfree::atomic::Atom::update"):
                continue
            for a in (t["callee"].get("res_args") or t["callee"].get("args") or []):
                if isinstance(a, dict) and a.get("closure"):
                    n_cl += 1
                    inner = cg.reachable([a["closure"]])
                    bad = sorted(x for x in inner if x in loopy)
                    waits = sorted(x for x in inner if x in lib.WAIT_PRIMS)
                    retry = sorted(x for x in inner if x in ("llfree::atomic::Atom::try_update", "llfree::atomic::Atom::update"))
                    rep.check(not bad and not waits and not retry, rule, "%s|update-closure|%s" % (name, a["closure"].split("::")[-1]),
                              "update closure is loop-free",
                              "the closure retried by the CAS loop contains/reaches a loop, wait or nested retry: %s" % (bad + waits + retry), t["span"])
    rep.floor(rule, "closures passed to CAS retry loops", n_cl, 6)
    # Atom::try_update/update themselves just forward to core's atomics
    for fn in ("llfree::atomic::Atom::try_update", "llfree::atomic::Atom::update"):
        b = cg.bodies.get(fn)
        if b is None:
            rep.violation(rule, "%s|anchor" % fn, "function missing", None)
            continue
        rep.check(not loop_info(b), rule, "%s|forwarder" % fn, "no loop of its own (forwards to core's atomic update)",
                  "%s contains its own retry loop" % fn, b.span)
    rep.assume("core::sync::atomic::Atomic*::{try_update, update} retry only after a failed compare-exchange, i.e. after interference (trusted table entry)")
    # ---- R-RECURSION
    rule = "R-RECURSION"
    rep.rule(rule, "the API call graph is acyclic except get_local's guarded single self call")
    nodes = [n for n in local]
    succ = lambda n: [m for m in cg.edges.get(n, ()) if m in cg.bodies and cg.bodies[m].crate.name == "llfree" and m in reach
                      and (n, m) not in cg.generic_edges]
    rep.assume("a trait call on a generic type parameter (ZoneAlloc<A> -> A) dispatches to a strictly smaller type and cannot recurse without bound")
    comps = [c for c in cfg.sccs(nodes, succ) if len(c) > 1 or (len(c) == 1 and c[0] in succ(c[0]))]
    GL = "llfree::llfree::LLFree::get_local"
    for c in comps:
        if c == [GL]:
            b = cg.bodies[GL]
            tm = T.Terms(b, prog)
            rec = lib.find_calls(b, GL)
            good = len(rec) == 1
            if good:
                rb, rt = rec[0]
                sync_guard = False
                for s, d in lib.controlling_edges(b, rb):
                    cnd = tm.operand(b.term(s)["discr"])
                    if T.canon(cnd) == ("p", "sync") and lib.bool_edge_polarity(b, s, d) is True:
                        sync_guard = True
                passes_false = T.const_val(tm.operand(rt["args"][5])) == 0
                good = sync_guard and passes_false
            rep.check(good, rule, "get_local|self-call", "self call only under `sync` and with sync = false (depth <= 2)",
                      "get_local's recursion is not bounded by the sync flag", b.span)
        else:
            rep.violation(rule, "cycle|%s" % "+".join(sorted(x.split("::")[-1] for x in c)),
                          "recursion cycle in the API call graph: %s" % sorted(c), cg.bodies[c[0]].span)
    rep.check(True, rule, "scan", "%d functions, %d recursive components" % (len(nodes), len(comps)))
    # ---- R-NOWAIT
    rule = "R-NOWAIT"
    rep.rule(rule, "no call reachable from the API waits for another thread")
    n_w = 0
    for name in local:
        b = cg.bodies[name]
        for bi, t in b.calls():
            cn = callee_name(t["callee"])
            if cn in lib.WAIT_PRIMS:
                n_w += 1
                if name in ("llfree::util::spin_wait",):
                    continue  # reported at its callers
                rep.violation(rule, "%s|wait|%s" % (name, cn.split("::")[-1]),
                              "%s calls %s: the call waits for another thread to make progress" % (name, cn), t["span"])
    rep.check(True, rule, "scan", "%d wait-primitive call sites among %d reachable functions" % (n_w, len(local)))


def _loop_id(b, tm, h, info):
    """A line-number-free identifier of a loop: the iterator source term (truncated)."""
    if info is None:
        t = b.term(h)
        return "non-iterator:" + (callee_name(t["callee"]) or "?").split("::")[-1] if t["k"] == "call" else "non-iterator"
    return T.show(info[0][2][0])[:70]


_run_c21 = run


def run(rep, programs):  # noqa: F811
    _run_c21(rep, programs)
    # the one waiting primitive gives up after n polls
    from props import c03
    c03.r_spin_wait(rep, programs["core"])
