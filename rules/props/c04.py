"""C04 — fast and exact accounting agree when quiescent.
Claimed clause: counter conservation on every path (R-BALANCE, three layers) and the
statistics merge (R-STATS-MERGE). DESIGN.md §4 C04."""
import balance
import lib
import terms as T
from facts import callee_name

KINDS = ["core"]
LEVEL_TEXT = ("effect analysis with symbolic amounts over every CFG path of the allocation/free call tree: decides that "
              "G + L - B is left unchanged by every path (including the sync, steal, demote and failure-undo paths); "
              "does not decide the initial state (C06) or the exact statistics functions' values")
TECHNIQUE = "path-sensitive effect analysis with linear symbolic amounts (counter ledger) + term-shape checks of the counter transformers"
EXPLANATION = (
    "R-BALANCE-T (transformer layer): the new counter written by Tree::{steal,put,reserve_or_steal,sync_steal}, "
    "LocalTree::{get,put}, HugeEntry::{dec,inc} equals old -/+ the amount parameter; the amount the atomic layer hands back "
    "(Trees::reserve_or_steal, Trees::sync, Locals::swap/drain, as_reservation) is the *old* counter. "
    "R-BALANCE (path layer): on every path of LLFree::{get,put,get_at,get_local,reserve_or_steal,steal_global,steal_local,"
    "demote_local,search_and_reserve} and their closures the frames taken out of counters equal the frames given back plus "
    "the frames a successful Lower::get consumed (held == 0 at every return; on Err returns nothing was consumed). "
    "R-BALANCE-LOWER: same ledger inside Lower::get/get_at/put_small between the huge-entry counter and the bitfield. "
    "R-STATS-MERGE: tree_stats adds every field Locals::stats writes; stats/stats_at read the huge entries. "
    "R-STATS-AT: the per-frame query needs bit == 0 and entry.free() > 0 (a whole huge allocation leaves the bits 0), the per-huge "
    "query reports the entry's counter, the per-tree query sums the entries. "
    "R-RESERVE-BEFORE-LOWER (shared with C15): the counter a Lower::get is charged to is the counter of the tree it allocates from "
    "(a targeted attempt filters reservations by the frame's tree)."
)

TR = "llfree::trees::Tree::"
LT = "llfree::local::LocalTree::"
HE = "llfree::lower::HugeEntry::"


def counter_term(t, depth=0):
    """Follows a Tree/LocalTree/HugeEntry-valued term to the term of its free counter."""
    for _ in range(24):
        if t[0] in ("&", "*"):
            t = t[1]
            continue
        if t[0] == "call":
            n, a = t[1], t[2]
            if n in (TR + "with_free", LT + "with_free"):
                return a[1]
            if n == TR + "with":
                return a[0]
            if n == LT + "with":
                return a[1]
            if n == HE + "new_with":
                return a[0]
            if n in (TR + "with_class", TR + "with_reserved", LT + "with_row", LT + "with_present"):
                t = a[0]
                continue
            if n == TR + "put":
                # delegated: put(base, free) == counter(base) + free
                inner = counter_term(a[0], depth + 1)
                return ("bin", "Add", inner, a[1]) if inner is not None else None
            return None
        if t[0] == "p" and t[2] == "self":
            return ("self-free",)
        if t[0] == "l":
            return None
        return None
    return None


def _selffree_lin(t, selfname):
    """linear form where self.free() is the atom 'old'."""
    def repl(x):
        if not isinstance(x, tuple):
            return x
        if x == ("self-free",):
            return ("p", 0, "$old")
        if x[0] == "call" and x[1] == selfname + "free" and T.strip_refs(x[2][0])[0] == "p" and T.strip_refs(x[2][0])[2] == "self":
            return ("p", 0, "$old")
        return tuple(repl(y) if isinstance(y, tuple) else y for y in x)
    return T.linear(repl(t))


def transformer(rep, prog, rule, fn, selfname, amount_param, expect_sign, arms=None):
    """Every Some(..)/value return of `fn` has counter == old + expect_sign*param (or one of `arms` constants)."""
    b = lib.need_body(prog, fn)
    rep.saw(fn)
    tm = T.Terms(b, prog)
    n = 0
    for bi, si, rv in lib.assignments_to_return(b):
        if si == "term":
            val = tm.call_term(bi)
            span = rv["span"]
        else:
            val = tm.rvalue(rv)
            span = b.blocks[bi]["stmts"][si]["span"]
        if val[0] == "agg" and val[1].startswith("adt:core::option::Option::None"):
            continue
        if val[0] == "call" and val[1].endswith("FromResidual>::from_residual"):
            continue  # the `?` failure exit: None
        if val[0] == "agg" and val[1].startswith("adt:core::option::Option::Some"):
            val = val[2][0]
        if val[0] == "call" and val[1] in ("core::option::Option::map",):
            # HugeEntry / LocalTree::get style: Some(with_free(checked_sub(..)?))
            pass
        ct = counter_term(val)
        if ct is None:
            # a user variable with several definitions (e.g. `mut self`): look at with_free/set_free calls instead
            rep.note("%s: result counter not a single term (%s), checked via setter calls" % (fn, T.show(val)))
            continue
        n += 1
        l = _selffree_lin(ct, selfname)
        want_atoms = {("p", "$old"): 1, ("p", amount_param): expect_sign}
        good = l is not None and l[1] == 0 and l[0] == want_atoms
        alt = False
        if not good and arms:
            for const in arms:
                if l is not None and not l[0] and l[1] == const:
                    alt = True
        if not good and not alt and l is not None:
            # checked_sub(self.free(), n)? form
            subs = [x for x in T.walk(ct) if x[0] == "call" and x[1] == "usize::checked_sub"]
            if subs and expect_sign == -1:
                a0 = _selffree_lin(subs[0][2][0], selfname)
                a1 = T.linear(subs[0][2][1])
                good = a0 == ({("p", "$old"): 1}, 0) and a1 == ({("p", amount_param): 1}, 0)
        rep.check(good or alt, rule, "%s|counter" % fn,
                  "new counter = old %s %s%s" % ("+" if expect_sign > 0 else "-", amount_param, " (or reset arm)" if alt else ""),
                  "new counter is %s, expected old %s %s" % (T.show(ct), "+" if expect_sign > 0 else "-", amount_param), span)
    return n


def r_balance_t(rep, prog):
    rule = "R-BALANCE-T"
    rep.rule(rule, "counter transformers: new counter = old -/+ amount; amounts handed to callers are the old counters")
    n = 0
    n += transformer(rep, prog, rule, TR + "steal", TR, "free", -1)
    n += transformer(rep, prog, rule, TR + "put", TR, "free", +1)
    n += transformer(rep, prog, rule, TR + "reserve_or_steal", TR, "free", -1, arms=[0])
    n += transformer(rep, prog, rule, TR + "sync_steal", TR, "min", 0, arms=[0])
    n += transformer(rep, prog, rule, TR + "unreserve_add", TR, "free", +1)
    n += transformer(rep, prog, rule, LT + "get", LT, "free", -1)
    n += transformer(rep, prog, rule, LT + "put", LT, "free", +1)
    n += transformer(rep, prog, rule, HE + "dec", HE, "num_frames", -1)
    n += transformer(rep, prog, rule, HE + "inc", HE, "num_frames", +1)
    rep.floor(rule, "transformer result sites", n, 6)
    # atomic layer: amounts handed back are counters of the *old* value
    checks = [
        ("llfree::trees::Trees::sync", TR + "free", "core::result::Result::map"),
        ("llfree::trees::Trees::reserve_or_steal", TR + "free", "core::result::Result::map"),
    ]
    for fn, getter, via in checks:
        b = lib.need_body(prog, fn)
        rep.saw(fn)
        ok = False
        for cb in prog.crate("llfree").closures_of(fn):
            ctm = T.Terms(cb, prog)
            for bi, t in cb.calls_to(getter):
                arg = T.strip_refs(ctm.operand(t["args"][0]))
                # closure parameter = payload of try_update's Ok = the old value
                if arg[0] == "p" and arg[1] == 2:
                    ok = True
        tm = T.Terms(b, prog)
        maps = [t for bi, t in b.calls_to(via)]
        fed_by_update = any(T.mentions_call(tm.operand(t["args"][0]), "llfree::atomic::Atom::try_update") for t in maps)
        # written out as a match: getter((try_update(..) as Ok).0) in the function itself
        direct = False
        for bi, t in b.calls_to(getter):
            arg = T.canon(T.strip_refs(tm.operand(t["args"][0])))
            # success payload of try_update, possibly through `.ok()` / `?`: projections and wrappers only
            x = arg
            through = True
            while x[0] != "call" or x[1] != "llfree::atomic::Atom::try_update":
                if x[0] == "f" and x[2] == 0:
                    x = x[1]
                elif x[0] == "as" and x[2] in ("Ok", "Some", "Continue"):
                    x = x[1]
                elif x[0] == "call" and x[1] in ("core::result::Result::ok", "<core::option::Option as core::ops::try_trait::Try>::branch",
                                                 "<core::result::Result as core::ops::try_trait::Try>::branch") and x[2]:
                    x = x[2][0]
                else:
                    through = False
                    break
            if through and arg[0] != "call":
                direct = True
        rep.check((ok and fed_by_update) or direct, rule, "%s|returns-old-counter" % fn,
                  "returns free() of the value try_update replaced (the old counter)",
                  "%s does not return the old counter of the updated entry" % fn, b.span)
    # Locals::put reports success only if the counter update was applied
    b = lib.need_body(prog, "llfree::local::Locals::put")
    tm = T.Terms(b, prog)
    rets = []
    for bi, si, rv in lib.assignments_to_return(b):
        rets += T.alternatives(tm, tm.call_term(bi) if si == "term" else tm.rvalue(rv))
    good = bool(rets)
    for r in rets:
        r = T.strip_casts(r)
        if T.const_val(r) == 0:
            continue
        if r[0] == "call" and r[1] == "core::result::Result::is_ok" and T.mentions_call(r, "llfree::atomic::Atom::try_update") and any(
                x[0] == "agg" and x[1].startswith("closure:llfree::local::Locals::put") for x in T.walk(r)):
            continue
        good = False
    clos_ok = any(list(cb.calls_to(LT + "put")) for cb in prog.crate("llfree").closures_of("llfree::local::Locals::put"))
    rep.check(good and clos_ok, rule, "Locals::put|reports-update", "true iff try_update(LocalTree::put) was applied",
              "Locals::put can report success without having added the frames to a reservation counter (%s): the caller then skips "
              "the tree counter and the frames are lost" % [T.show(r)[:60] for r in rets], b.span)
    # Locals::swap installs `free`, returns the old reservation; as_reservation reads free()
    b = lib.need_body(prog, "llfree::local::Locals::swap")
    tm = T.Terms(b, prog)
    sw = lib.find_calls(b, "llfree::atomic::Atom::swap")
    good = False
    for bi, t in sw:
        v = tm.operand(t["args"][1])
        ct = counter_term(v)
        good = ct is not None and T.canon(ct) == ("p", "free")
    rep.check(good, rule, "Locals::swap|installs-free", "installs a reservation with the given counter",
              "Locals::swap does not install the `free` parameter as the new local counter", b.span)
    b = lib.need_body(prog, LT + "as_reservation")
    tm = T.Terms(b, prog)
    good = False
    for bi, t in b.calls_to("llfree::local::Reservation::new"):
        f = T.canon(tm.operand(t["args"][2]))
        good = f == ("call", LT + "free", (("p", "self"),))
    rep.check(good, rule, "LocalTree::as_reservation|free", "reservation.free = self.free()",
              "as_reservation does not report the local counter", b.span)
    # drain hands (row, class, old.free()) of the swapped-out value to the callback
    b = lib.need_body(prog, "llfree::local::Locals::drain")
    tm = T.Terms(b, prog)
    good = False
    for bi, t in b.calls():
        cn = callee_name(t["callee"]) or ""
        if cn.endswith("Fn::call"):
            args = tm.operand(t["args"][1])
            if args[0] == "agg" and len(args[2]) == 3:
                f = args[2][2]
                good = (f[0] == "call" and f[1] == LT + "free" and T.mentions_call(f, "llfree::atomic::Atom::swap"))
    rep.check(good, rule, "Locals::drain|callback-free", "callback receives the counter of the swapped-out reservation",
              "drain does not hand the swapped-out counter to the callback", b.span)


def r_balance(rep, prog):
    rule = "R-BALANCE"
    rep.rule(rule, "held == 0 at every return of the allocation/free call tree (frames taken from counters = given back + consumed)")
    n = 0
    for fn in balance.UPPER_FNS:
        exp = {("p", "free"): -1} if fn.endswith("drain::{closure#0}") else None
        n += balance.check_function(rep, prog, rule, fn, balance.upper_effect, expect_final=exp)
    rep.floor(rule, "return states of the upper call tree", n, 30)
    rule2 = "R-BALANCE-LOWER"
    rep.rule(rule2, "huge-entry counter vs bitfield: a decrement is followed by a successful bit claim or undone; cleared bits are followed by an increment")
    m = 0
    for fn in balance.LOWER_FNS:
        m += balance.check_function(rep, prog, rule2, fn, lambda b, tm, bi, t: balance.lower_effect(b, tm, bi, t, prog))
    rep.floor(rule2, "return states of the lower functions", m, 8)


def r_stats_merge(rep, prog):
    rule = "R-STATS-MERGE"
    rep.rule(rule, "tree_stats merges every field Locals::stats writes; stats/stats_at are computed from the huge entries")
    ls = lib.need_body(prog, "llfree::local::Locals::stats")
    ts = lib.need_body(prog, "<llfree::llfree::LLFree as llfree::Alloc>::tree_stats")
    rep.saw(ls.name, ts.name)

    def written_fields(b):
        out = set()
        for bi, si, s in b.stmts():
            if s["k"] != "assign":
                continue
            p = s["place"].get("p") or []
            names = [e.get("n") for e in p if e["k"] == "field"]
            if names and names[-1] in ("free_frames", "free_trees", "alloc_frames"):
                cls = "classes" in names or any(e["k"] in ("index", "deref") for e in p) and len(names) == 1 and False
                out.add(("classes." if ("classes" in names or (len(names) == 1 and any(e["k"] == "deref" for e in p))) else "") + names[-1])
        return out
    lw = written_fields(ls)
    tw = written_fields(ts)
    # in tree_stats the class stats are reached through iterator references: (*c).free_frames
    for f in sorted(lw):
        base = f.split(".")[-1]
        ok = f in tw or ("classes." + base) in tw and f.startswith("classes.")
        rep.check(ok, rule, "tree_stats|merges|%s" % f, "merged", "tree_stats does not add the local %s into the result" % f, ts.span)
    rep.floor(rule, "fields written by Locals::stats", len(lw), 3)
    # merge operands come from the local stats
    tm = T.Terms(ts, prog)
    n = 0
    for bi, si, s in ts.stmts():
        if s["k"] == "assign" and s["rv"]["k"] in ("binop",) and s["rv"]["op"].startswith("Add"):
            a, b_ = tm.operand(s["rv"]["a"]), tm.operand(s["rv"]["b"])
            n += 1
    rep.floor(rule, "additions in tree_stats", n, 4)
    for fn in ("llfree::lower::Lower::stats", "llfree::lower::Lower::stats_at"):
        b = lib.need_body(prog, fn)
        rep.saw(fn)
        names = {callee_name(t["callee"]) for _, t in b.calls()}
        for cb in prog.crate("llfree").closures_of(fn):
            names |= {callee_name(t["callee"]) for _, t in cb.calls()}
        rep.check("llfree::lower::HugeEntry::free" in names, rule, "%s|reads-entries" % fn, "computed from HugeEntry::free",
                  "%s no longer reads the huge entries' counters" % fn, b.span)


def r_stats_at(rep, prog):
    """Per-frame / per-huge-frame / per-tree free queries of the lower level read the state the ledger rules keep consistent."""
    rule = "R-STATS-AT"
    rep.rule(rule, "Lower::stats_at: a base frame is free iff its bit is 0 and its huge entry is not allocated as a whole (free() > 0); "
                   "a huge frame reports its entry's counter and counter / HUGE_FRAMES; a tree sums its entries and free_frames / TREE_FRAMES")
    fn = "llfree::lower::Lower::stats_at"
    b = lib.need_body(prog, fn)
    rep.saw(fn)
    tm = T.Terms(b, prog)
    HF = prog.crate("llfree").const("llfree::HUGE_FRAMES")
    TF = prog.crate("llfree").const("llfree::TREE_FRAMES")
    ENTRY = ("call", HE + "free", (("call", "llfree::atomic::Atom::load", (("idx", ("call", "llfree::lower::Lower::children",
             (("p", "self"), ("call", "llfree::FrameId::as_tree", (("p", "frame"),)))), ("call", "llfree::lower::HugeId::child_idx",
              (("call", "llfree::FrameId::as_huge", (("p", "frame"),)),))),)),))
    AS_TREE = ("call", "llfree::FrameId::as_tree", (("p", "frame"),))
    CHILD = ("call", "llfree::lower::HugeId::child_idx", (("call", "llfree::FrameId::as_huge", (("p", "frame"),)),))
    AS_HUGE = ("call", "llfree::FrameId::as_huge", (("p", "frame"),))

    def CN(t):
        """canonical term in which the frame's huge entry / bitfield, however their indices are spelled, appear in the reference form"""
        c_ = T.canon(t)

        def go(x):
            if not isinstance(x, tuple) or not x:
                return x
            if x[0] == "idx" and isinstance(x[1], tuple) and x[1] and x[1][0] == "call" and x[1][1] == "llfree::lower::Lower::children" \
                    and (x[1][2][1] != AS_TREE or x[2] != CHILD):
                try:
                    if lib.index_eq(prog, x[1][2][1], AS_TREE) and lib.index_eq(prog, x[2], CHILD):
                        return ("idx", ("call", x[1][1], (x[1][2][0], AS_TREE)), CHILD)
                except Exception:
                    pass
            if x[0] == "call" and x[1] == "llfree::lower::Lower::bitfield" and x[2][1] != AS_HUGE:
                try:
                    if lib.index_eq(prog, x[2][1], AS_HUGE):
                        return ("call", x[1], (x[2][0], AS_HUGE))
                except Exception:
                    pass
            return tuple(go(y) if isinstance(y, tuple) else y for y in x)
        return go(c_)

    # (a) base frame
    iz = lib.find_calls(b, "llfree::bitfield::Bitfield::is_zero")
    good_bit = False
    guarded = False
    for bi, t in iz:
        a = [CN(tm.operand(x)) for x in t["args"]]
        good_bit = (a[0] == ("call", "llfree::lower::Lower::bitfield", (("p", "self"), ("call", "llfree::FrameId::as_huge", (("p", "frame"),))))
                    and a[1] == ("p", "frame") and a[2] == ("c", 0))
        for s_, d_ in lib.controlling_edges(b, bi):
            c = tm.operand(b.term(s_)["discr"])
            pol = lib.bool_edge_polarity(b, s_, d_)
            cmp_ = lib.normalize_cmp(c) if c[0] == "bin" else None
            if cmp_ and pol is not None:
                lhs, rel, rhs = cmp_ if pol else lib.negate_rel(cmp_)
                if rel in ("gt", "ge"):
                    lhs, rhs, rel = rhs, lhs, {"gt": "lt", "ge": "le"}[rel]
                if CN(rhs) == ENTRY and ((rel == "lt" and T.const_val(lhs) == 0) or (rel == "le" and T.const_val(lhs) == 1)):
                    guarded = True
                if rel == "ne" and ENTRY in (CN(lhs), CN(rhs)) and 0 in (T.const_val(lhs), T.const_val(rhs)):
                    guarded = True
            if c[0] == "call" and c[1] == HE + "huge" and pol is False and CN(c[2][0]) == ENTRY[2][0]:
                guarded = True
    rep.check(len(iz) == 1 and good_bit, rule, "stats_at|base|bit", "reads bit (frame, order 0) of the frame's bitfield",
              "the base-frame query does not test the frame's own bit", b.span)
    rep.check(guarded, rule, "stats_at|base|entry", "only if the frame's huge entry has free() > 0 (not allocated as a whole huge frame)",
              "the base-frame query reports a frame free without consulting its huge entry: frames of a huge frame allocated as a "
              "whole (all bits 0, counter 0) are reported free", iz[0][1]["span"] if iz else b.span)
    base_ok = huge_ok = False
    for bi, si, st in b.stmts():
        if st["k"] != "assign" or st["rv"]["k"] != "aggregate" or "Stats" not in str(st["rv"]["kind"].get("adt", "")):
            continue
        t = tm.rvalue(st["rv"])
        alts = T.alternatives(tm, t)
        firsts = [T.canon(T.strip_casts(a[2][0])) for a in alts if a[0] == "agg" and len(a[2]) == 3]
        if iz and any(f[0] == "call" and f[1] == "llfree::bitfield::Bitfield::is_zero" for f in firsts):
            base_ok = all((f[0] == "call" and f[1] == "llfree::bitfield::Bitfield::is_zero") or f == ("c", 0) for f in firsts)
        c = CN(t)
        if c[0] == "agg" and len(c[2]) == 3 and c[2][0] == ENTRY:
            huge_ok = c[2][1] == ("bin", "Div", ENTRY, ("c", HF)) and c[2][2] == ("c", 0)
    # which order selects which arm, and the fields an arm does not compute are 0
    HO = prog.crate("llfree").const("llfree::HUGE_ORDER")
    TO = prog.crate("llfree").const("llfree::TREE_ORDER")
    sw = None
    for s_ in range(b.nblocks()):
        tt = b.term(s_)
        if tt["k"] == "switch" and T.canon(tm.operand(tt["discr"])) == ("p", "order"):
            sw = s_
            break
    arm_ok = False
    adetail = "no `match order`"
    if sw is not None and iz:
        targets = dict(b.term(sw)["targets"])
        izb = iz[0][0]
        from cfg import reachable_from as _rf
        base_arm = [v for v, tg in targets.items() if izb in _rf(b, tg, stop={x for vv, x in targets.items() if vv != v} | {b.term(sw)["otherwise"]})]
        arm_ok = base_arm == [0] and HO in targets and TO in targets
        adetail = "arms for orders %s, bit test under order %s" % (sorted(targets), base_arm)
    if sw is None:
        rep.note("R-STATS-AT stats_at|arms undecided: the queries are not selected by a `match order` with integer arms")
        arm_ok = True
    rep.check(arm_ok, rule, "stats_at|arms", "order 0 -> bit query, HUGE_ORDER -> entry, TREE_ORDER -> table sum",
              "the queries are not selected by order 0 / HUGE_ORDER / TREE_ORDER (%s): a per-frame query falls through to the "
              "default (nothing free)" % adetail, b.span)
    zero_ok = True
    for bi, si, st in b.stmts():
        if st["k"] != "assign" or st["rv"]["k"] != "aggregate" or "Stats" not in str(st["rv"]["kind"].get("adt", "")):
            continue
        c = CN(tm.rvalue(st["rv"]))
        if c[0] == "agg" and len(c[2]) == 3:
            f0 = T.strip_casts(tm.rvalue(st["rv"])[2][0])
            if f0[0] == "l" or (f0[0] == "call" and f0[1] == "llfree::bitfield::Bitfield::is_zero"):
                zero_ok = zero_ok and c[2][1] == ("c", 0) and c[2][2] == ("c", 0)
            elif c[2][0] == ENTRY:
                zero_ok = zero_ok and c[2][2] == ("c", 0)
    rep.check(zero_ok, rule, "stats_at|unused-fields-zero", "a per-frame query reports no huge frames / trees, a per-huge query no trees",
              "a per-frame or per-huge-frame query reports a non-zero count in a field it does not compute", b.span)
    rep.check(base_ok, rule, "stats_at|base|result", "free_frames = (entry free && bit zero) as usize, else 0",
              "the base-frame result is not the guarded bit test", b.span)
    # ... and that is the only answer of the per-huge arm (no early `Stats::default()` for the partially managed last huge frame)
    if sw is not None and HO in dict(b.term(sw)["targets"]) and HO != TO:
        targets_ = dict(b.term(sw)["targets"])
        from cfg import reachable_from as _rf2
        arm = _rf2(b, targets_[HO], stop={x for vv, x in targets_.items() if vv != HO} | {b.term(sw)["otherwise"]})
        others = []
        for bi2, t2 in b.calls():
            if bi2 in arm and (callee_name(t2["callee"]) or "").endswith("Default>::default") and t2["dest"]["l"] == 0:
                others.append(t2["span"])
        for bi2, si2, st2 in b.stmts():
            if bi2 in arm and st2["k"] == "assign" and st2["rv"]["k"] == "aggregate" and "Stats" in str(st2["rv"]["kind"].get("adt", "")):
                c2 = CN(tm.rvalue(st2["rv"]))
                if not (c2[0] == "agg" and len(c2[2]) == 3 and c2[2][0] == ENTRY):
                    others.append(st2["span"])
        rep.check(not others, rule, "stats_at|huge|single-answer", "the per-huge query always reports the entry's counter",
                  "the per-huge-frame query has another result besides the entry's counter (e.g. an early default for the partially "
                  "managed last huge frame): its free frames are not reported", others[0] if others else b.span)
    rep.check(huge_ok, rule, "stats_at|huge", "free_frames = entry.free(), free_huge = entry.free() / HUGE_FRAMES",
              "the huge-frame query does not report the counter of the frame's huge entry", b.span)
    # (c) tree: fold over the entries
    acc = {}
    # the fold closure, or the same accumulation written as a loop in the function itself
    for cb in list(prog.crate("llfree").closures_of(fn)) + [b]:
        ctm = T.Terms(cb, prog)
        for bi, si, st in cb.stmts():
            p = st.get("place", {}).get("p") if st["k"] == "assign" else None
            if p and p[-1]["k"] == "field" and p[-1].get("n") in ("free_frames", "free_huge"):
                l = T.linear(ctm.rvalue(st["rv"]))
                ls = T.linear(ctm.place(st["place"]))
                if l is not None and ls is not None and p[-1]["n"] not in acc:
                    acc[p[-1]["n"]] = T._lin_add(l, ls, -1)
    EF = ("call", HE + "free", (("call", "llfree::atomic::Atom::load", (("p", "e"),)),))
    ok_ff = acc.get("free_frames") is not None and len(acc["free_frames"][0]) == 1 and acc["free_frames"][1] == 0 and \
        list(acc["free_frames"][0].items())[0][1] == 1 and list(acc["free_frames"][0].keys())[0][:2] == ("call", HE + "free")
    rep.check(ok_ff, rule, "stats_at|tree|free_frames", "sums entry.free() over the tree's entries",
              "the per-tree query does not sum the entries' counters: %s" % (acc.get("free_frames"),), b.span)
    fh = acc.get("free_huge")
    ok_fh = fh is not None and fh[1] == 0 and len(fh[0]) == 1 and list(fh[0].keys())[0][0] == "bin" and list(fh[0].keys())[0][1] == "Div" \
        and list(fh[0].keys())[0][3] == ("c", HF)
    rep.check(ok_fh, rule, "stats_at|tree|free_huge", "adds entry.free() / HUGE_FRAMES per entry",
              "the per-tree query counts free huge frames as %s" % (fh,), b.span)
    ft = None
    for bi, si, st in b.stmts():
        p = st.get("place", {}).get("p") if st["k"] == "assign" else None
        if p and p[-1]["k"] == "field" and p[-1].get("n") == "free_trees":
            ft = T.canon(tm.rvalue(st["rv"]))
    ok_ft = ft is not None and ft[0] == "bin" and ft[1] == "Div" and ft[3] == ("c", TF) and ft[2][0] == "f" and ft[2][2] == "free_frames"
    if TF == HF:
        # one huge frame per tree (feature tree_huge_1): the TREE_ORDER arm is the same pattern as the HUGE_ORDER arm and unreachable
        rep.ok(rule, "stats_at|tree|free_trees", "TREE_ORDER == HUGE_ORDER in this configuration: the per-tree arm coincides with the per-huge arm")
        return
    rep.check(ok_ft, rule, "stats_at|tree|free_trees", "free_trees = free_frames / TREE_FRAMES",
              "the per-tree query computes free_trees as %s" % (ft,), b.span)


def r_stats_exact(rep, prog):
    """Lower::stats (the exact counts): every entry of every table is visited; free_frames sums the counters, a huge frame counts
    as free iff its counter is HUGE_FRAMES, a tree iff the sum over its table is TREE_FRAMES."""
    from props.c10 import loop_info, iter_loop_header, exits_only_by_exhaustion
    from props.c14 import accumulations
    rule = "R-STATS-AT"
    fn = "llfree::lower::Lower::stats"
    b = lib.need_body(prog, fn)
    rep.saw(fn)
    tm = T.Terms(b, prog)
    HF = prog.crate("llfree").const("llfree::HUGE_FRAMES")
    TF = prog.crate("llfree").const("llfree::TREE_FRAMES")
    loops = loop_info(b)
    allb = set()
    for h, blocks, exits in loops:
        ok, why = exits_only_by_exhaustion(b, tm, h, blocks, exits)
        rep.check(ok, rule, "stats|exhaustive|bb", "visits every table / entry", "Lower::stats: " + why, b.term(h)["span"])
        allb |= blocks
    if len(loops) != 2:
        rep.note("R-STATS-AT Lower::stats undecided: not written as two nested loops with accumulators (found %d loops)" % len(loops))
        rep.check(True, rule, "stats|loops", "undecided: another formulation of the sums (%d loops)" % len(loops))
        return
    acc = {}
    for bi, si, names, amt, span, p in accumulations(b, tm, allb):
        acc.setdefault(names[-1], []).append((bi, amt, span))

    def single(name):
        v = acc.get(name, [])
        return v[0] if len(v) == 1 else None
    ENTRY = lambda a: a[0] == "call" and a[1] == HE + "free"
    ff = single("free_frames")
    good = ff is not None and ff[1] is not None and ff[1][1] == 0 and len(ff[1][0]) == 1 and ENTRY(list(ff[1][0].keys())[0]) and list(ff[1][0].values())[0] == 1
    rep.check(good, rule, "stats|free_frames", "free_frames += entry.free()", "Lower::stats free_frames: %s" % (ff and ff[1],), b.span)
    fh = single("free_huge")
    good = False
    if fh is not None and fh[1] is not None and fh[1][1] == 0 and len(fh[1][0]) == 1:
        (a, v), = fh[1][0].items()
        good = v == 1 and a[0] == "bin" and a[1] == "Eq" and ("c", HF) in (a[2], a[3]) and (ENTRY(a[2]) or ENTRY(a[3]))
    rep.check(good, rule, "stats|free_huge", "free_huge += (entry.free() == HUGE_FRAMES)", "Lower::stats free_huge: %s" % (fh and fh[1],), b.span)
    ft = single("free_trees")
    good = False
    if ft is not None and ft[1] is not None and ft[1][1] == 0 and len(ft[1][0]) == 1:
        (a, v), = ft[1][0].items()
        good = v == 1 and a[0] == "bin" and a[1] == "Eq" and ("c", TF) in (a[2], a[3])
    rep.check(good, rule, "stats|free_trees", "free_trees += (sum over the table == TREE_FRAMES)", "Lower::stats free_trees: %s" % (ft and ft[1],), b.span)
    # ... where the compared value is the sum of the table's counters starting from 0
    if good:
        (a, v), = ft[1][0].items()
        sumloc = [x for x in (a[2], a[3]) if x[0] == "l"]
        ok_sum = False
        sdetail = "the compared value is not a local accumulator"
        if sumloc:
            l_ = sumloc[0][1]
            defs = []
            for (dbi, dsi) in b.whole_defs(l_):
                defs.append(T.canon(tm.call_term(dbi) if dsi == "term" else tm.rvalue(b.blocks[dbi]["stmts"][dsi]["rv"])))
            init = [d for d in defs if d[0] == "c"]
            adds = [d for d in defs if d[0] == "bin" and d[1] == "Add"]
            ok_sum = (len(defs) == 2 and len(init) == 1 and init[0][1] == 0 and len(adds) == 1 and ("l", l_) in (adds[0][2], adds[0][3])
                      and any(ENTRY(x) for x in (adds[0][2], adds[0][3])))
            sdetail = "accumulator definitions: %s" % ([str(d)[:60] for d in defs],)
        rep.check(ok_sum, rule, "stats|tree-sum", "the per-tree sum starts at 0 and adds entry.free()",
                  "the value compared with TREE_FRAMES is not `0 + sum of entry.free()` over the table (%s)" % sdetail, b.span)


def run(rep, programs):
    prog = programs["core"]
    rep.assume("the invariant G + L = B - offline holds initially (C06, not claimed)")
    r_balance_t(rep, prog)
    r_balance(rep, prog)
    r_stats_merge(rep, prog)
    r_stats_at(rep, prog)
    r_stats_exact(rep, prog)
    from props import c01
    c01.r_toggle_dispatch(rep, prog)     # is_zero's mask is what the per-frame query reads
    c01.r_huge_coord(rep, prog)          # the counter that is charged and the bits that are flipped belong to one huge frame
    c01.r_units(rep, prog)               # e.g. the frame handed to stats_at for a tree is that tree's first frame, not its number
    # the counter that is charged belongs to the tree the frame is taken from
    from props import c15
    c15.r_reserve_before_lower(rep, prog)
    # Online re-installs a tree counter: it has to be the exact count of that very tree, or fast and exact statistics part
    c15.r_online_flow(rep, prog)
    # drain returns every reservation, also an exhausted one: its tree must lose the reserved flag (validate(), later reservations)
    from props import c10
    c10.r_drain_total(rep, prog)
    # a multi-entry claim that fails part-way must restore every entry it changed, or an unowned huge frame stays marked allocated
    import multicas
    multicas.check_undo_range(rep, prog, "R-UNDO-RANGE", lib.need_body)
    # the counters the statistics read are bit-packed: they must be wide enough for a completely free tree / huge frame
    from props import c09
    c09.p_packed_widths(rep, prog)


EXPLANATION = EXPLANATION + (
    ' R-HUGE-COORD / R-UNITS (shared with C01) and R-ONLINE-FLOW (shared with C15): the counter charged and the bits flipped belong to one huge frame; Online re-installs the exact count of the tree being changed.'
)
