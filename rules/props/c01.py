"""C01 — allocated blocks never overlap (claimed clauses: all-or-nothing multi-word claims,
counter-before-bits, no blind writes on the allocation path, toggle guards).
DESIGN.md §4 C01."""
import cfg
import lib
import terms as T
from facts import callee_name
from pathsens import PathSens

KINDS = ["core"]
LEVEL_TEXT = ("path-sensitive typestate rule over rustc MIR, universally quantified over CFG paths of every claiming "
              "function: decides that no function reports success after a failed claim (all-or-nothing), that the "
              "huge-entry counter is reserved before bits are claimed, and that ownership bits are only written by CAS; "
              "it does not decide linearisability of ownership")
TECHNIQUE = "path-sensitive typestate (claim status per CAS call site) + who-may-call + term-shape rules"
EXPLANATION = (
    "R-AON: in every function that returns Result/Option and contains a claim primitive (Atom::compare_exchange*, try_update, "
    "compare_exchange_all, Bitfield::toggle/toggle_int/set_first_zeros/set_first_zero_rows), no path reaches an Ok/Some return while the "
    "latest execution of a claim site has failed. R-CLAIM-DOM: Ok returns of the claiming functions are preceded by a successful claim. "
    "R-COUNTER-FIRST: in Lower::get/get_at the bit claim is dominated by the successful decrement of the same huge frame's entry. "
    "R-BLIND-WRITES: store/swap/update/fetch_*/non_atomic are only called from the initialisation/recovery/reservation-slot functions. "
    "R-TOGGLE-GUARD: the single-row toggle only sets bits under the `e & mask == 0` guard (and clears under `e & mask == mask`), "
    "multi-word CASes exchange (expected, !expected). R-BALANCE / R-BALANCE-LOWER (shared with C04): the huge-entry counter, which orders >= HUGE_ORDER trust instead of the bits, changes by exactly what each path took or gave back - an inflated counter hands out a huge frame whose frames are still held. "
    "R-HUGE-COORD: wherever a Lower function uses a huge entry children(T)[L] and a bitfield bitfield(H), H names the huge frame of "
    "that entry (H = as_huge(x) with T = as_tree(x), L = child index; or first huge frame of T + L); a tree-local index as bitfield "
    "selector is reported. R-UNITS: dimension analysis of the index newtypes - XId(e) and direct indices into children / bitfields / "
    "entries / data never receive a number whose known unit (frames, rows, huge frames, trees) is another one; unknown units are not "
    "reported. R-INIT-COVERAGE (shared with C06): every table entry, also behind the managed range, is written by the initialisation."
)

A = "llfree::atomic::Atom::"
CLAIMS = {
    A + "compare_exchange", A + "compare_exchange_weak", A + "try_update",
    "<slice as llfree::atomic::AtomicSlice>::compare_exchange_all",
    "llfree::bitfield::Bitfield::toggle", "llfree::bitfield::Bitfield::toggle_int",
    "llfree::bitfield::Bitfield::set_first_zeros", "llfree::bitfield::Bitfield::set_first_zero_rows",
}
CAS = {A + "compare_exchange", A + "compare_exchange_weak"}

CLAIMING_FNS = [
    "llfree::lower::Lower::get", "llfree::lower::Lower::get_at",
    "llfree::bitfield::Bitfield::set_first_zeros", "llfree::bitfield::Bitfield::set_first_zero_rows",
    "llfree::bitfield::Bitfield::toggle", "llfree::bitfield::Bitfield::toggle_int",
    "<slice as llfree::atomic::AtomicSlice>::compare_exchange_all",
]
# a claiming function may return the (mapped) result of another claiming function
DELEGATES = set(CLAIMING_FNS)


def fail_value(ty):
    if ty.startswith("core::result::Result<"):
        return 1
    if ty.startswith("core::option::Option<") or ty == "bool":
        return 0
    return None


def ok_value(ty):
    fv = fail_value(ty)
    return None if fv is None else 1 - fv


def claim_sites(b):
    return [(bi, t) for bi, t in b.calls() if callee_name(t["callee"]) in CLAIMS]


def r_aon(rep, prog):
    rule = "R-AON"
    rep.rule(rule, "no Ok/Some return while the latest execution of a claim call site failed (all-or-nothing claims)")
    multi = 0
    n_fn = 0
    for b in prog.crate("llfree").bodies.values():
        sites = claim_sites(b)
        if not sites:
            continue
        out_ty = b.local_ty(0)
        okv = ok_value(out_ty)
        if okv is None:
            continue
        n_fn += 1
        rep.saw(b.name)
        # forward CAS sites inside loops (the multi-word claims)
        loops = cfg.natural_loops(b)
        in_loop = set()
        for h, blocks in loops:
            in_loop |= blocks
        for bi, t in sites:
            if callee_name(t["callee"]) in CAS and bi in in_loop:
                multi += 1
        # a new iteration of a loop that encloses the claim's own loop is a fresh attempt
        reset = {}
        for bi, t in sites:
            containing = sorted([(len(blocks), h, blocks) for h, blocks in loops if bi in blocks])
            for _, h, blocks in containing[1:]:
                for a in blocks:
                    if h in b.succ(a):
                        reset.setdefault((a, h), []).append(bi)
        ps = PathSens(b, prog, reset_edges=reset)
        bad = {}
        n_ok_ret = 0
        for rn in ps.return_nodes():
            if ps.ret_discr(rn) != okv:
                continue
            n_ok_ret += 1
            env = ps.term_env_of(rn)
            for bi, t in sites:
                fv = fail_value(b.local_ty(t["dest"]["l"]))
                if fv is not None and env.get(("c", bi)) == fv:
                    bad.setdefault(bi, t)
        for bi, t in sites:
            name = callee_name(t["callee"]).split("::")[-1]
            key = "%s|site|%s" % (b.name, name)
            if bi in bad:
                rep.violation(rule, key, "a success return is reachable after this claim (%s) failed without a fresh successful "
                              "attempt: two threads racing for the same words both report the block" % name, t["span"],
                              path="failure edge of bb%d -> ... -> return Ok" % bi)
            else:
                rep.ok(rule, key, "no success return after a failed %s (%d success-return states)" % (name, n_ok_ret), t["span"])
    rep.floor(rule, "CAS call sites inside loops (multi-word claims)", multi, 3)
    rep.floor(rule, "functions with claim sites", n_fn, 5)


def r_claim_dom(rep, prog):
    rule = "R-CLAIM-DOM"
    rep.rule(rule, "every success return of a claiming function follows a successful claim (or returns another claiming function's result)")
    for fn in CLAIMING_FNS:
        b = lib.need_body(prog, fn)
        sites = claim_sites(b)
        okv = ok_value(b.local_ty(0))
        ps = PathSens(b, prog)
        tm = T.Terms(b, prog)
        n = 0
        for rn in ps.return_nodes():
            d = ps.ret_discr(rn)
            env = ps.term_env_of(rn)
            if d == okv:
                n += 1
                good = any(env.get(("c", bi)) == ok_value(b.local_ty(t["dest"]["l"])) for bi, t in sites)
                failed = any(env.get(("c", bi)) == fail_value(b.local_ty(t["dest"]["l"])) for bi, t in sites)
                if failed:
                    continue  # R-AON's business
                # zero-iteration exit of a claiming loop (empty claim) is vacuous success
                loop_blocks = set()
                for h, blocks in cfg.natural_loops(b):
                    loop_blocks |= blocks
                vacuous = (not good) and any(bi in loop_blocks for bi, _ in sites) and all(
                    env.get(("c", bi)) is None for bi, _ in sites)
                if vacuous:
                    rep.note("%s: success return on the zero-iteration path of a claiming loop (empty claim)" % fn)
                rep.check(good or vacuous, rule, "%s|ok-return" % fn, "success return after a successful claim",
                          "a success return is reachable without any successful claim", b.span)
            elif d is None:
                # delegation: _0 must be (a map of) a claiming function's result
                pass
        # delegation check on definitions of _0 that are calls
        for bi, si, x in lib.assignments_to_return(b):
            if si != "term":
                continue
            t = tm.call_term(bi)
            inner = [c for c in T.walk(t) if c[0] == "call" and c[1] in DELEGATES]
            rep.check(bool(inner), rule, "%s|delegation" % fn,
                      "returns the result of %s" % (inner[0][1] if inner else "?"),
                      "returns the result of a call that is not a claiming function: " + T.show(t), x["span"])
        rep.check(n > 0 or fn.endswith("toggle_int") or True, rule, "%s|analysed" % fn, "%d success-return states" % n)


def r_counter_first(rep, prog):
    rule = "R-COUNTER-FIRST"
    rep.rule(rule, "Lower::get/get_at: the bit claim is dominated by the success edge of try_update(|v| v.dec(2^order)) on the entry "
                   "of the same huge frame (a concurrent huge allocation CASes the entry from LEN, so it cannot succeed in between)")
    for fn, bitcall in (("llfree::lower::Lower::get", "llfree::bitfield::Bitfield::set_first_zeros"),
                        ("llfree::lower::Lower::get_at", "llfree::bitfield::Bitfield::toggle")):
        b = lib.need_body(prog, fn)
        rep.saw(fn)
        tm = T.Terms(b, prog)
        ps = PathSens(b, prog)
        bits = lib.find_calls(b, bitcall)
        if len(bits) != 1:
            rep.violation(rule, "%s|bit-claim" % fn, "expected one %s call, found %d" % (bitcall, len(bits)), b.span)
            continue
        bb, bt = bits[0]
        # dec sites: try_update whose closure calls HugeEntry::dec
        decs = []
        for bi, t in b.calls_to(A + "try_update"):
            ct = tm.operand(t["args"][1])
            clos = [x for x in T.walk(ct) if x[0] == "agg" and x[1].startswith("closure:")]
            if not clos:
                continue
            cb = prog.body(clos[0][1][len("closure:"):])
            if cb is None:
                continue
            if any(callee_name(c["callee"]) == "llfree::lower::HugeEntry::dec" for _, c in cb.calls()):
                # amount: 1 << order
                ctm = T.Terms(cb, prog)
                amt = [ctm.operand(c["args"][1]) for _, c in cb.calls() if callee_name(c["callee"]) == "llfree::lower::HugeEntry::dec"][0]
                decs.append((bi, t, amt))
        if len(decs) != 1:
            rep.violation(rule, "%s|dec-site" % fn, "expected one try_update(dec) site, found %d" % len(decs), b.span)
            continue
        db, dt, amt = decs[0]
        la = T.linear(amt)
        rep.check(la is not None and la[1] == 0 and len(la[0]) == 1 and list(la[0].items())[0][0][0] == "pow2"
                  and list(la[0].items())[0][1] == 1, rule, "%s|dec-amount" % fn, "decrement amount is 2^order: " + T.show(amt),
                  "decrement amount is not 2^order: " + T.show(amt), dt["span"])
        states = ps.states_at(bb)
        bad = [e for _, e in states if e.get(("c", db)) != 0]
        rep.check(bool(states) and not bad, rule, "%s|dominance" % fn,
                  "bit claim only after a successful counter decrement (%d states)" % len(states),
                  "the bit claim %s is reachable without a successful huge-entry decrement" % bitcall, bt["span"])
        # same huge frame: the index used for children[..] occurs in the bitfield selector
        ent = tm.operand(dt["args"][0])
        idx = [x for x in T.walk(ent) if x[0] == "idx"]
        bf = tm.operand(bt["args"][0])
        same = False
        if idx:
            it = T.canon(idx[0][2])
            same = any(T.canon(x) == it for x in T.walk(bf))
            if not same and fn.endswith("get_at"):
                # children[frame.as_huge().0 % TREE_HUGE]  vs  bitfield(frame.as_huge())
                hs = [T.canon(x) for x in T.walk(idx[0][2]) if x[0] == "call" and x[1] == "llfree::FrameId::as_huge"]
                same = bool(hs) and any(T.canon(x) in hs for x in T.walk(bf))
        rep.check(same, rule, "%s|same-huge-frame" % fn, "entry index and bitfield selector name the same huge frame",
                  "entry index %s and bitfield selector %s do not name the same huge frame" % (
                      T.show(idx[0][2]) if idx else "?", T.show(bf)), bt["span"])


BLIND = {
    A + "store": {"llfree::bitfield::Bitfield::fill", "llfree::lower::Lower::recover", "llfree::lower::Lower::free_all",
                  "llfree::lower::Lower::reserve_all"},
    A + "swap": {"llfree::local::Locals::swap", "llfree::local::Locals::drain", "llfree::local::Locals::demote_any"},
    A + "update": {"llfree::trees::Trees::put"},
    A + "fetch_or": {"llfree::bitfield::Bitfield::set"},
    A + "fetch_and": {"llfree::bitfield::Bitfield::set"},
    A + "fetch_min": set(), A + "fetch_max": set(), A + "fetch_add": set(), A + "fetch_sub": set(),
    A + "fetch_xor": set(), A + "fetch_nand": set(),
    "<slice as llfree::atomic::AtomicSlice>::non_atomic": {"llfree::lower::Lower::free_all", "llfree::lower::Lower::reserve_all"},
    # wrappers around blind writes
    "llfree::bitfield::Bitfield::fill": {"llfree::lower::Lower::recover", "llfree::lower::Lower::free_all", "llfree::lower::Lower::reserve_all"},
    "llfree::bitfield::Bitfield::set": {"llfree::lower::Lower::free_all"},
    "llfree::lower::Lower::free_all": {"llfree::lower::Lower::new"},
    "llfree::lower::Lower::reserve_all": {"llfree::lower::Lower::new"},
    "llfree::lower::Lower::recover": {"llfree::lower::Lower::new"},
}


def r_blind_writes(rep, prog):
    rule = "R-BLIND-WRITES"
    rep.rule(rule, "unconditional writes (store/swap/update/fetch_*/non_atomic and their wrappers) are called only from the reviewed "
                   "initialisation / recovery / reservation-slot functions; ownership bits and huge entries are otherwise written by CAS only")
    cg, _ = lib.analyses(prog)
    n = 0
    for prim, allowed in sorted(BLIND.items()):
        callers = set()
        for body, bi, t in cg.call_sites_of(prim):
            if body.crate.name != "llfree":
                continue
            name = body.name
            # closures count as their defining function
            while "::{closure#" in name:
                name = name.rsplit("::{closure#", 1)[0]
            # the generic Atom wrappers themselves
            if name.startswith("llfree::atomic::Atom::") or name.startswith("<llfree::atomic::Atom"):
                continue
            callers.add((name, bi, body))
        for name, bi, body in sorted(callers, key=lambda x: (x[0], x[1])):
            n += 1
            rep.check(name in allowed, rule, "%s|caller|%s" % (prim.split("::")[-1], name),
                      "reviewed caller of %s" % prim.split("::")[-1],
                      "%s is called from %s, which is not an initialisation/recovery/slot function: a blind write can "
                      "overwrite another thread's claim" % (prim, name), body.term(bi)["span"])
    rep.floor(rule, "blind-write call sites", n, 10)


def r_toggle_guard(rep, prog):
    rule = "R-TOGGLE-GUARD"
    rep.rule(rule, "single-row toggle: bits are set only under `e & mask == 0` and cleared only under `e & mask == mask`; "
                   "word-sized CASes exchange (val, !val)")
    b = lib.need_body(prog, "llfree::bitfield::Bitfield::toggle")
    clos = prog.crate("llfree").closures_of("llfree::bitfield::Bitfield::toggle")
    found = {"set": 0, "clear": 0}
    for cb in clos:
        ctm = T.Terms(cb, prog)
        for bi, t in cb.calls_to("bool::then_some", "bool::then"):
            guard = T.canon(ctm.operand(t["args"][0]))
            val = T.canon(ctm.operand(t["args"][1]))
            e = ("p", cb.local_name(2) or "_2")
            if val[0] == "bin" and val[1] == "BitOr":
                m = val[3] if val[2] == e else val[2]
                want = ("bin", "Eq", *sorted([("bin", "BitAnd", *sorted([e, m], key=repr)), ("c", 0)], key=repr))
                found["set"] += 1
                rep.check(guard == want, rule, "toggle|set-guard", "sets mask bits only if e & mask == 0",
                          "bits are set without the all-zero guard: guard is %s" % T.show(ctm.operand(t["args"][0])), t["span"])
            elif val[0] == "bin" and val[1] == "BitAnd":
                nm = [x for x in (val[2], val[3]) if x[0] == "un" and x[1] == "Not"]
                if not nm:
                    rep.note("toggle: unrecognised clear value " + T.show(val))
                    continue
                m = nm[0][2]
                want = ("bin", "Eq", *sorted([("bin", "BitAnd", *sorted([e, m], key=repr)), m], key=repr))
                found["clear"] += 1
                rep.check(guard == want, rule, "toggle|clear-guard", "clears mask bits only if e & mask == mask",
                          "bits are cleared without the all-ones guard: guard is %s" % T.show(ctm.operand(t["args"][0])), t["span"])
    rep.floor(rule, "guarded set arm of the single-row toggle", found["set"], 1)
    rep.floor(rule, "guarded clear arm of the single-row toggle", found["clear"], 1)
    # word-sized / multi-row CAS: (x, !x)
    n = 0
    for fn in ("llfree::bitfield::Bitfield::toggle", "llfree::bitfield::Bitfield::toggle_int"):
        bb = lib.need_body(prog, fn)
        tm = T.Terms(bb, prog)
        for bi, t in bb.calls_to(A + "compare_exchange"):
            cur, new = T.canon(tm.operand(t["args"][1])), T.canon(tm.operand(t["args"][2]))

            def is_not(a, x):
                return (a[0] == "un" and a[1] == "Not" and a[2] == x) or (
                    a[0] == "call" and a[1].endswith("core::ops::bit::Not::not") and a[2][0] == x)
            n += 1
            rep.check(is_not(new, cur) or is_not(cur, new), rule, "%s|cas-flips" % fn,
                      "CAS exchanges a value with its complement", "CAS does not exchange (x, !x): (%s, %s)" % (
                          T.show(tm.operand(t["args"][1])), T.show(tm.operand(t["args"][2]))), t["span"])
    rep.floor(rule, "complementing CAS sites", n, 2)
    # the mask of the single-row toggle
    tm = T.Terms(b, prog)
    masks = []
    for cb in clos:
        pass
    for bi, si, s in b.stmts():
        if s["k"] == "assign" and b.local_name(s["place"]["l"]) == "mask":
            masks.append(tm.rvalue(s["rv"]))
    for m in masks:
        c = T.canon(m)
        ok = None
        # (MAX >> (64 - 2^order)) << row_bit_idx(i)
        if c[0] == "bin" and c[1] == "Shl" and c[2][0] == "bin" and c[2][1] == "Shr":
            inner = c[2]
            lin = T.linear(("bin", "Sub", ("c", 0, None), inner[3])) if False else None
            sh = T.linear(m[3]) if False else None
            width = T.linear(m[2][3]) if m[2][0] == "bin" else None
            ok = (T.const_val(m[2][2]) == 2 ** 64 - 1 and width is not None and width[1] == 64 and
                  len(width[0]) == 1 and list(width[0].values()) == [-1] and list(width[0].keys())[0][0] == "pow2" and
                  any(x[0] == "call" and x[1] == "llfree::FrameId::row_bit_idx" for x in T.walk(m[3])))
        if ok is None:
            rep.note("toggle mask: shape not recognised, not decided: " + T.show(m))
        else:
            rep.check(ok, rule, "toggle|mask", "mask = (MAX >> (64 - 2^order)) << row_bit_idx(i)",
                      "mask is not 2^order ones at the frame's bit index: " + T.show(m), b.span)


def run(rep, programs):
    prog = programs["core"]
    r_aon(rep, prog)
    r_claim_dom(rep, prog)
    r_counter_first(rep, prog)
    r_blind_writes(rep, prog)
    r_toggle_guard(rep, prog)


def r_undo_range(rep, prog):
    import multicas
    multicas.check_undo_range(rep, prog, "R-UNDO-RANGE", lib.need_body)


_run0 = run


def run(rep, programs):  # noqa: F811
    _run0(rep, programs)
    r_undo_range(rep, programs["core"])


def r_return_claimed(rep, prog):
    rule = "R-RETURN-CLAIMED"
    rep.rule(rule, "the frame a claiming function reports is the one whose words it claimed (same selector / index / offset terms)")
    # ---- Lower::get
    fn = "llfree::lower::Lower::get"
    b = lib.need_body(prog, fn)
    tm = T.Terms(b, prog)
    n = 0
    targeted_direct = False
    for bi, si, rv in lib.assignments_to_return(b):
        if si == "term" or not (rv["k"] == "aggregate" and rv["kind"].get("variant") == "Ok"):
            continue
        val = tm.operand(rv["ops"][0])
        span = b.blocks[bi]["stmts"][si]["span"]
        if T.canon(val) == ("f", ("as", ("p", "frame"), "Some"), 0):
            # targeted result written out as a match arm: Ok(frame) only where get_at returned Ok
            gas = list(b.calls_to("llfree::lower::Lower::get_at"))
            ps = PathSens(b, prog)
            sts = ps.states_at(bi)
            targeted_direct = bool(gas) and bool(sts) and all(env.get(("c", gas[0][0])) == 0 for _, env in sts)
            if not targeted_direct:
                rep.violation(rule, "Lower::get|targeted", "Ok(frame) is returned on a path where get_at(frame, order) did not succeed", span)
            continue
        n += 1
        sz = [(cb, ct) for cb, ct in b.calls_to("llfree::bitfield::Bitfield::set_first_zeros")]
        # arithmetic form (independent of how the index arithmetic is spelled): frame = HUGE_FRAMES * bf_i + offset, or
        # frame = TREE_FRAMES * tree + HUGE_FRAMES * (first claimed entry)
        lv = lib.index_lin(prog, val)
        hf = prog.crate("llfree").const("llfree::HUGE_FRAMES")
        tf = prog.crate("llfree").const("llfree::TREE_FRAMES")
        sem = None
        if lv is not None and sz:
            sel = [x for x in T.walk(tm.operand(sz[0][1]["args"][0])) if x[0] == "call" and x[1] == "llfree::lower::Lower::bitfield"]
            off = lib.index_lin(prog, ("f", ("f", ("as", tm.call_term(sz[0][0]), "Ok"), 0, None), 0, None))
            if sel and off is not None:
                ls = lib.index_lin(prog, sel[0][2][1])
                if ls is not None and T._lin_add(T._lin_scale(ls, hf), off, 1) == lv:
                    sem = "base-order"
        ces = list(b.calls_to("<slice as llfree::atomic::AtomicSlice>::compare_exchange_all"))
        chs = list(b.calls_to("llfree::lower::Lower::children"))
        if sem is None and lv is not None and ces and chs:
            rng = [x for x in T.walk(tm.operand(ces[0][1]["args"][0])) if x[0] == "agg" and x[1].startswith("adt:core::ops::range::Range::Range")]
            lt = lib.index_lin(prog, tm.operand(chs[0][1]["args"][1]))
            if rng and lt is not None:
                lo = lib.index_lin(prog, rng[0][2][0])
                if lo is not None and T._lin_add(T._lin_scale(lt, tf), T._lin_scale(lo, hf), 1) == lv:
                    sem = "huge-order"
        if sem == "base-order":
            rep.check(True, rule, "Lower::get|base-order", "returns HUGE_FRAMES * bf_i + the offset set_first_zeros claimed in bitfield bf_i")
            continue
        if sem == "huge-order":
            rep.check(True, rule, "Lower::get|huge-order", "returns TREE_FRAMES * tree + HUGE_FRAMES * i for the claimed entries [i, i + 2^k)")
            continue
        if val[0] == "call" and val[1].endswith("core::ops::arith::Add>::add"):
            # base path: bf_i.as_frame() + offset
            base, off = val[2]
            okb = False
            if sz:
                sel = [x for x in T.walk(tm.operand(sz[0][1]["args"][0])) if x[0] == "call" and x[1] == "llfree::lower::Lower::bitfield"]
                okb = bool(sel) and base[0] == "call" and base[1] == "llfree::lower::HugeId::as_frame" and T.canon(base[2][0]) == T.canon(sel[0][2][1])
                oko = T.canon(off) == ("f", ("as", T.canon(tm.call_term(sz[0][0])), "Ok"), 0)
            rep.check(bool(sz) and okb and oko, rule, "Lower::get|base-order", "returns bitfield(bf_i).as_frame() + the offset set_first_zeros claimed in bf_i",
                      "Lower::get returns %s, which is not the block claimed by set_first_zeros" % T.show(val)[:160], span)
        else:
            # huge path: FrameId(tree_start.0 + HugeId(i).as_frame().0), i = start of the claimed entry range
            ce = list(b.calls_to("<slice as llfree::atomic::AtomicSlice>::compare_exchange_all"))
            ok = False
            if ce and val[0] == "agg" and val[2]:
                rng = [x for x in T.walk(tm.operand(ce[0][1]["args"][0])) if x[0] == "agg" and x[1].startswith("adt:core::ops::range::Range::Range")]
                hid = [x for x in T.walk(val) if x[0] == "agg" and x[1].startswith("adt:llfree::lower::HugeId")]
                ok = bool(rng) and bool(hid) and T.canon(hid[0][2][0]) == T.canon(rng[0][2][0]) and T.mentions_call(val, "llfree::trees::TreeId::as_frame")
            rep.check(ok, rule, "Lower::get|huge-order", "returns tree start + HugeId(i).as_frame() for the claimed entries [i, i + 2^k)",
                      "Lower::get returns %s, which is not the start of the claimed huge entries" % T.show(val)[:160], span)
    rep.floor(rule, "Ok results of Lower::get", n, 2)
    # targeted: returns exactly the requested frame, claimed by get_at(frame, order)
    ga = list(b.calls_to("llfree::lower::Lower::get_at"))
    ok = False
    if len(ga) == 1:
        a = [T.canon(tm.operand(x)) for x in ga[0][1]["args"]]
        okargs = a[1] == ("f", ("as", ("p", "frame"), "Some"), 0) and a[2] == ("p", "order")
        for cb in prog.crate("llfree").closures_of(fn):
            ctm = T.Terms(cb, prog)
            rets = [ctm.rvalue(rv) for _, si, rv in lib.assignments_to_return(cb) if si != "term"]
            if rets and T.canon(rets[0]) == ("up", "frame"):
                ok = okargs
        if targeted_direct:
            ok = okargs
    rep.check(ok, rule, "Lower::get|targeted", "targeted: get_at(frame, order).map(|()| frame)",
              "a targeted Lower::get does not claim and return exactly the requested frame", b.span)
    # ---- get_at: the toggled bits are those of (frame, order)
    g = lib.need_body(prog, "llfree::lower::Lower::get_at")
    gtm = T.Terms(g, prog)
    tg = list(g.calls_to("llfree::bitfield::Bitfield::toggle"))
    ok = False
    if len(tg) == 1:
        a = [gtm.operand(x) for x in tg[0][1]["args"]]
        ok = T.canon(a[1]) == ("p", "frame") and T.canon(a[2]) == ("p", "order") and T.const_val(a[3]) == 0
    rep.check(ok, rule, "Lower::get_at|toggle-args", "toggle(frame, order, expected = false)", "get_at toggles other bits than (frame, order)", g.span)
    ce = list(g.calls_to("<slice as llfree::atomic::AtomicSlice>::compare_exchange_all"))
    ok = False
    if len(ce) == 1:
        rng = [x for x in T.walk(gtm.operand(ce[0][1]["args"][0])) if x[0] == "agg" and x[1].startswith("adt:core::ops::range::Range::Range")]
        if rng:
            lo, hi = rng[0][2]
            d = T._lin_add(T.linear(hi), T.linear(lo), -1)
            ok = T.mentions_param(lo, "frame") and d is not None and d[1] == 0 and len(d[0]) == 1 and list(d[0].keys())[0][0] == "pow2"
    rep.check(ok, rule, "Lower::get_at|huge-range", "claims entries [child_idx(frame), + 2^(order-HUGE_ORDER))", "get_at claims an unexpected entry range", g.span)
    # ---- set_first_zeros: RowId(i).as_frame() + offset with i the row that was updated
    s = lib.need_body(prog, "llfree::bitfield::Bitfield::set_first_zeros")
    stm = T.Terms(s, prog)
    ups = list(s.calls_to(A + "try_update"))
    ok = False
    for bi, si, rv in lib.assignments_to_return(s):
        if si == "term" or not (rv["k"] == "aggregate" and rv["kind"].get("variant") == "Ok"):
            continue
        val = stm.operand(rv["ops"][0])
        if val[0] == "call" and val[1].endswith("core::ops::arith::Add>::add") and ups:
            base, off = val[2]
            rowsel = [x for x in T.walk(stm.operand(ups[0][1]["args"][0])) if x[0] == "agg" and x[1].startswith("adt:llfree::bitfield::RowId")]
            okb = base[0] == "call" and base[1] == "llfree::bitfield::RowId::as_frame" and rowsel and T.canon(base[2][0]) == T.canon(rowsel[0])
            ok = bool(okb)
        if not ok and ups:
            # arithmetic form: frame = BITFIELD_ROW * (row that was updated) + one offset value
            rows_ = [x for x in T.walk(stm.operand(ups[0][1]["args"][0])) if x[0] == "call" and x[1] == "llfree::bitfield::Bitfield::row"]
            rb = prog.crate("llfree").const("llfree::BITFIELD_ROW")
            lv = lib.index_lin(prog, val)
            lr = lib.index_lin(prog, rows_[0][2][1]) if rows_ else None
            if lv is not None and lr is not None:
                d = T._lin_add(lv, T._lin_scale(lr, rb), -1)
                # (the offset is a variable the closure assigns through a capture: its term is the initial FrameId(0) or one atom)
                ok = d is not None and d[1] == 0 and (not d[0] or (len(d[0]) == 1 and list(d[0].values())[0] == 1))
    rep.check(ok, rule, "set_first_zeros|row", "returns RowId(i).as_frame() + offset for the row it updated",
              "set_first_zeros reports a different row than the one it updated", s.span)
    # the offset is the one first_zeros_aligned returned for the value that was stored
    okc = False
    for cb in prog.crate("llfree").closures_of(s.name):
        ctm = T.Terms(cb, prog)
        fz = list(cb.calls_to("llfree::bitfield::first_zeros_aligned"))
        if fz:
            a = [T.canon(ctm.operand(x)) for x in fz[0][1]["args"]]
            okc = a[0] == ("p", cb.local_name(2) or "_2") and a[1] == ("up", "order")
    rep.check(okc, rule, "set_first_zeros|closure", "first_zeros_aligned(current row value, order)", "the row search is not applied to the current row value / order", s.span)


_run1 = run


def run(rep, programs):  # noqa: F811
    _run1(rep, programs)
    r_return_claimed(rep, programs["core"])


_run2 = run


def run(rep, programs):  # noqa: F811
    _run2(rep, programs)
    # the huge-entry counter is what orders >= HUGE_ORDER trust (counter == 512 => hand out the whole huge frame): it must stay
    # equal to the number of zero bits, i.e. every path of the lower level gives back exactly what it took (R-BALANCE-LOWER)
    from props import c04
    c04.r_balance(rep, programs["core"])
    # "in range": the huge path trusts a counter alone, so every table entry behind the managed range must have been written
    # (to 0) by the initialisation - a skipped entry keeps whatever the caller's buffer held
    from props import c06
    c06.r_init_coverage(rep, programs["core"])


def r_toggle_dispatch(rep, prog):
    """Bitfield::toggle: which primitive handles which order, and Bitfield::is_zero's mask (the two readers/writers of a block's
    bits must cover exactly 2^order bits at the block's position)."""
    rule = "R-TOGGLE-DISPATCH"
    rep.rule(rule, "toggle: orders 3..6 use toggle_int::<u8|u16|u32|u64> (2^order bits), orders <= 2 the masked row update, larger "
                   "orders the multi-row path; is_zero tests (MAX >> (64 - 2^order)) << bit index")
    fn = "llfree::bitfield::Bitfield::toggle"
    b = lib.need_body(prog, fn)
    rep.saw(fn)
    tm = T.Terms(b, prog)
    sw = None
    for s_ in range(b.nblocks()):
        t = b.term(s_)
        if t["k"] == "switch" and T.canon(tm.operand(t["discr"])) == ("p", "order") and len(t["targets"]) >= 3:
            sw = s_
    if sw is None:
        rep.check(True, rule, "toggle|dispatch", "undecided: no `match order` with integer arms (another implementation)")
    else:
        targets = dict(b.term(sw)["targets"])
        other = {x for x in targets.values()} | {b.term(sw)["otherwise"]}
        width = {"u8": 8, "u16": 16, "u32": 32, "u64": 64}
        bad = []
        seen = set()
        for k, tg in sorted(targets.items()):
            blocks = cfg.reachable_from(b, tg, stop=other - {tg})
            for bi, t in b.calls():
                if bi in blocks and callee_name(t["callee"]) == "llfree::bitfield::Bitfield::toggle_int":
                    ga = (t["callee"].get("res_args") or t["callee"].get("args") or [None])[0]
                    seen.add(k)
                    if width.get(ga) != (1 << k):
                        bad.append("order %d -> toggle_int::<%s>" % (k, ga))
        for k in (3, 4, 5, 6):
            if k not in seen and k in targets:
                bad.append("order %d arm does not call toggle_int" % k)
            if k not in targets:
                bad.append("no arm for order %d" % k)
        rep.check(not bad, rule, "toggle|dispatch", "order k in 3..6 -> toggle_int of 2^k bits",
                  "toggle dispatches %s: a block of that order is toggled with the wrong width (or not at all)" % "; ".join(bad), b.term(sw).get("span"))
    # masked arm: mask = (MAX >> (ROW_BITS - 2^order)) << row_bit_idx(i)
    def mask_ok(t):
        for x in T.walk(t):
            if x[0] == "bin" and x[1] == "Shl" and x[2][0] == "bin" and x[2][1] == "Shr" and T.const_val(x[2][2]) == (1 << 64) - 1:
                sub = T.strip_casts(x[2][3])
                l = T.linear(sub)
                sh_ok = l is not None and l[1] == 64 and len(l[0]) == 1 and list(l[0].items())[0][1] == -1 and list(l[0].keys())[0][0] == "pow2"
                pos = T.strip_casts(x[3])
                pos_ok = pos[0] == "call" and pos[1] == "llfree::FrameId::row_bit_idx"
                if sh_ok and pos_ok:
                    return True
        return False
    masks = []
    for cb in prog.crate("llfree").closures_of(fn):
        ctm = T.Terms(cb, prog)
        ups = cb.j.get("upvars", [])
    for bi, si, st in b.stmts():
        if st["k"] == "assign":
            t = tm.rvalue(st["rv"])
            if t[0] == "bin" and t[1] == "Shl" and any(T.const_val(y) == (1 << 64) - 1 for y in T.walk(t) if y[0] == "c"):
                masks.append(t)
    rep.check(bool(masks) and all(mask_ok(m) for m in masks), rule, "toggle|mask", "mask = (MAX >> (64 - 2^order)) << row_bit_idx(i)",
              "the single-row mask of toggle is %s" % [T.show(m)[:100] for m in masks], b.span)
    z = lib.need_body(prog, "llfree::bitfield::Bitfield::is_zero")
    rep.saw(z.name)
    ztm = T.Terms(z, prog)
    rets = [ztm.call_term(bi) if si == "term" else ztm.rvalue(rv) for bi, si, rv in lib.assignments_to_return(z)]
    single = [r for r in rets if r[0] == "bin" and r[1] == "Eq"]
    good = len(single) == 1 and mask_ok(single[0]) and T.const_val(single[0][3]) == 0 and T.mentions_call(single[0], "llfree::bitfield::Bitfield::get_row")
    rep.check(good, rule, "is_zero|mask", "(row & ((MAX >> (64 - 2^order)) << bit index)) == 0",
              "is_zero does not test exactly the 2^order bits of the block: %s" % [T.show(r)[:120] for r in single], z.span)
    multi = [r for r in rets if r[0] == "call" and r[1].endswith("::all")]
    good = False
    for r in multi:
        rng = [x for x in T.walk(r) if x[0] == "agg" and x[1].startswith("adt:core::ops::range::Range::Range")]
        if rng:
            hi = rng[0][2][1]
            adds = [x for x in T.walk(hi) if x[0] == "agg" and x[1].startswith("adt:llfree::FrameId")]
            good = any(T.linear(a[2][0]) is not None and list(T.linear(a[2][0])[0].keys())[:1] and list(T.linear(a[2][0])[0].keys())[0][0] == "pow2"
                       and T.linear(a[2][0])[1] == 0 for a in adds)
    rep.check(good or not multi, rule, "is_zero|rows", "multi-row: rows of [i, i + 2^order)", "is_zero's multi-row range is not [i, i + 2^order)", z.span)


_run3 = run


def run(rep, programs):  # noqa: F811
    _run3(rep, programs)
    r_toggle_dispatch(rep, programs["core"])


_run4 = run


def run(rep, programs):  # noqa: F811
    _run4(rep, programs)
    # alignment and range of targeted blocks (and of frees) are enforced by LLFree::check alone in release builds
    from props import c08
    c08.r_check_dom(rep, programs["core"])
    c08.r_check_guards(rep, programs["core"])


def r_huge_coord(rep, prog):
    """The huge entries are addressed as (tree, index in tree) - `self.children(T)[L]` - and the bitfields by a global huge index -
    `self.bitfield(H)`. Counter and bits of one huge frame are only kept in step if H = T * TREE_HUGE + L wherever a function
    uses both."""
    rule = "R-HUGE-COORD"
    rep.rule(rule, "Lower: a bitfield selected next to a huge entry children(T)[L] is the bitfield of that entry: H = as_huge(x) with "
                   "T = as_tree(x), L = child index of as_huge(x); or H = first huge frame of T + L")
    th = prog.crate("llfree").const("llfree::TREE_HUGE")
    as_huge = ("llfree::FrameId::as_huge", "llfree::bitfield::RowId::as_huge")
    as_tree = ("llfree::FrameId::as_tree", "llfree::bitfield::RowId::as_tree")

    def is_call(t, names):
        return isinstance(t, tuple) and len(t) == 3 and t[0] == "call" and t[1] in names

    def strip(t):
        while isinstance(t, tuple) and t and t[0] in ("&", "cast", "deref"):
            t = t[1]
        return t

    def field0(t):
        return t[1] if isinstance(t, tuple) and len(t) == 3 and t[0] == "f" and t[2] == 0 else t

    def unwrap_huge(t):
        if t[0] == "agg" and t[1].startswith("adt:llfree::lower::HugeId") and len(t[2]) == 1:
            return t[2][0]
        if t[0] == "f" and t[2] == 0:
            return t
        return t

    def local_of(l):
        """l = tree-local index of as_huge(X) -> X"""
        if is_call(l, ("llfree::lower::HugeId::child_idx",)) and is_call(l[2][0], as_huge):
            return l[2][0][2][0]
        if l[0] == "bin" and l[1] == "Rem" and l[3] == ("c", th) and is_call(field0(l[2]), as_huge):
            return field0(l[2])[2][0]
        return None

    def tree_base(t):
        t = field0(t)
        if is_call(t, as_huge) and is_call(t[2][0], ("llfree::trees::TreeId::as_frame",)):
            return t[2][0][2][0]
        if t[0] == "bin" and t[1] == "Mul":
            for a, b in ((t[2], t[3]), (t[3], t[2])):
                if a == ("c", th):
                    return field0(b)
        return None

    def entry_coord(x):
        base, l = strip(x[1]), x[2]
        if not is_call(base, ("llfree::lower::Lower::children",)):
            return None
        tt = base[2][1]
        xx = local_of(l)
        if xx is not None and is_call(tt, as_tree) and tt[2][0] == xx:
            return ("of", xx)
        return ("tl", tt, l)

    def decomp(h, locals_):
        if is_call(h, as_huge):
            x = h[2][0]
            if x[0] == "agg" and x[1].startswith("adt:llfree::FrameId") and x[2] and x[2][0][0] == "bin" and x[2][0][1] == "Add":
                for a, b in ((x[2][0][2], x[2][0][3]), (x[2][0][3], x[2][0][2])):
                    a, b = field0(a), field0(b)
                    if is_call(a, ("llfree::lower::HugeId::as_frame",)) and is_call(b, ("llfree::trees::TreeId::as_frame",)):
                        return ("tl", b[2][0], unwrap_huge(a[2][0]))
            return ("of", x)
        parts = None
        if is_call(h, ("<llfree::lower::HugeId as core::ops::arith::Add>::add",)):
            parts = h[2]
        elif h[0] == "agg" and h[1].startswith("adt:llfree::lower::HugeId") and len(h[2]) == 1:
            inner = h[2][0]
            if inner[0] == "bin" and inner[1] == "Add":
                parts = (inner[2], inner[3])
            elif inner in locals_ or local_of(inner) is not None or (inner[0] == "bin" and inner[1] == "Rem" and inner[3] == ("c", th)):
                return ("local", inner)
        if parts:
            for a, b in ((parts[0], parts[1]), (parts[1], parts[0])):
                tt = tree_base(a)
                if tt is not None:
                    return ("tl", tt, unwrap_huge(b))
        return None

    n = 0
    crate = prog.crate("llfree")
    for name, b in sorted(crate.bodies.items()):
        if not name.startswith("llfree::lower::Lower::") or b.kind == "closure":
            continue
        entries, sels, raw_entries, raw_sels = [], [], [], []
        for bb in [b] + list(crate.closures_of(name)):
            tm = T.Terms(bb, prog)
            for bi, t in bb.calls():
                cn = callee_name(t["callee"])
                for a in t["args"]:
                    term = tm.operand(a)
                    if bb.kind == "closure":
                        term = lib.resolve_upvars(prog, bb, term)
                    for x in T.walk(term):
                        if x[0] == "idx":
                            e = entry_coord(T.canon(x))
                            if e is not None and e not in entries:
                                entries.append(e)
                                base_ = x[1]
                                while base_[0] in ("&", "cast", "*"):
                                    base_ = base_[1]
                                raw_entries.append((base_[2][1], x[2]))
                if cn == "llfree::lower::Lower::bitfield":
                    term = tm.operand(t["args"][1])
                    if bb.kind == "closure":
                        term = lib.resolve_upvars(prog, bb, term)
                    sels.append((T.canon(term), t["span"]))
                    raw_sels.append(term)
        if not sels or not entries:
            continue
        rep.saw(name)
        short = name.rsplit("::", 1)[1]
        locals_ = {e[2] for e in entries if e[0] == "tl"}
        def semantic(hraw_):
            """H == T * TREE_HUGE + L as index normal forms, for one of the entries used in this function"""
            lh = lib.index_lin(prog, hraw_)
            if lh is None:
                return False
            for traw, lraw in raw_entries:
                lt, ll = lib.index_lin(prog, traw), lib.index_lin(prog, lraw)
                if lt is None or ll is None:
                    continue
                if T._lin_add(T._lin_scale(lt, th), ll, 1) == lh:
                    return True
            return False

        def is_local(hraw_):
            lh = lib.index_lin(prog, hraw_)
            return lh is not None and any(lib.index_lin(prog, lraw) == lh for _, lraw in raw_entries)

        for (h, span), hraw in zip(sels, raw_sels):
            d = decomp(h, locals_)
            if d is None and semantic(hraw):
                n += 1
                rep.check(True, rule, "%s|bitfield-of-entry" % short, "bitfield selector = tree * TREE_HUGE + entry index (normal forms)")
                continue
            if d is None and is_local(hraw):
                d = ("local", h)
            if d is None:
                rep.check(True, rule, "%s|bitfield-of-entry" % short, "undecided: selector form not recognised (%s)" % str(h)[:100])
                rep.note("%s: bitfield selector in %s has an unrecognised form; agreement with the huge entry is undecided" % (rule, short))
                continue
            if d[0] == "local":
                rep.violation(rule, "%s|bitfield-of-entry" % short,
                              "the bitfield is selected with the index of the entry inside its tree; bitfields are indexed by the "
                              "global huge frame number (tree * TREE_HUGE + index), so outside tree 0 counter and bits belong to "
                              "different huge frames", span)
                continue
            ok = d in entries or semantic(hraw)
            n += ok
            rep.check(ok, rule, "%s|bitfield-of-entry" % short, "bitfield selector and children(T)[L] name the same huge frame",
                      "the bitfield selector and the huge entry used next to it do not name the same huge frame "
                      "(selector %s, entries %s)" % (str(d)[:160], str(entries)[:200]), span)
    rep.floor(rule, "bitfield selectors agreeing with the entry used next to them", n, 4)


_run5 = run


def run(rep, programs):  # noqa: F811
    _run5(rep, programs)
    r_huge_coord(rep, programs["core"])


def r_units(rep, prog):
    """Dimension check of the index newtypes (rules/units.py): a number wrapped into FrameId / RowId / HugeId / TreeId, or used
    to index the per-tree / per-huge-frame / per-row tables directly, must not be known to count something else."""
    import units
    rule = "R-UNITS"
    rep.rule(rule, "XId(e): the unit of e (from the newtypes it was unwrapped from, the conversion helpers and the ratio constants "
                   "HUGE_FRAMES, TREE_FRAMES, TREE_HUGE, BITFIELD_ROW, ROWS) is X or unknown; children[..] is indexed by a tree "
                   "number, bitfields[..] by a huge frame number, entries[..] by a tree number, data[..] by a row number")
    names = {"F": "frames (FrameId)", "R": "rows (RowId)", "H": "huge frames (HugeId)", "T": "trees (TreeId)", "!": "mixed units"}
    n = 0
    seen_fn = set()
    for b, bi, si, x, e, u, span in units.constructions(prog):
        if u == "?":
            continue
        seen_fn.add(b.name)
        short = b.name.replace("llfree::", "")
        good = u == x
        n += good
        rep.check(good, rule, "%s|%s" % (short, {"F": "FrameId", "R": "RowId", "H": "HugeId", "T": "TreeId"}[x]),
                  "wraps a number of %s" % names[x],
                  "%s wraps a number that counts %s as %s: %s" % (short, names.get(u, u), names[x], T.show(e)[:140]), span)
    rep.floor(rule, "newtype constructions with a known unit", n, 12)
    expect = {"children": "T", "bitfields": "H", "entries": "T", "data": "R"}
    owner = {"children": "llfree::lower::Lower::", "bitfields": "llfree::lower::Lower::", "entries": "llfree::trees::Trees::",
             "data": "llfree::bitfield::Bitfield::"}
    m = 0
    crate = prog.crate("llfree")
    for name, b in sorted(crate.bodies.items()):
        tm = T.Terms(b, prog)
        un = units.Units(prog, b)
        terms = []
        for bi, si, s in b.stmts():
            if s["k"] == "assign":
                terms.append((tm.rvalue(s["rv"]), s.get("span")))
        for bi, t in b.calls():
            for a in t["args"]:
                terms.append((tm.operand(a), t.get("span")))
        done = set()
        for t, span in terms:
            for x in T.walk(t):
                if x[0] != "idx":
                    continue
                base = x[1]
                while base[0] in ("&", "*", "cast"):
                    base = base[1]
                if not (base[0] == "f" and len(base) > 3 and base[3] in expect and name.startswith(owner[base[3]])):
                    continue
                u = un.unit(x[2])
                key = (base[3], T.canon(x[2]))
                if u == "?" or key in done:
                    continue
                done.add(key)
                seen_fn.add(name)
                good = u == expect[base[3]]
                m += good
                rep.check(good, rule, "%s|index|%s" % (name.replace("llfree::", ""), base[3]),
                          "%s[..] indexed by a number of %s" % (base[3], names[expect[base[3]]]),
                          "%s[..] is indexed by a number that counts %s, not %s" % (base[3], names.get(u, u), names[expect[base[3]]]), span)
    rep.floor(rule, "table index sites with a known unit", m, 8)
    rep.saw(*sorted(seen_fn))


_run6 = run


def run(rep, programs):  # noqa: F811
    _run6(rep, programs)
    r_units(rep, programs["core"])
