"""Fact generation: runs the mirfacts driver over /repo's current working tree.

The deciding step always re-reads /repo: the cache key is the hash of every source,
manifest and shipped configuration file in the working tree (plus the feature set and
the driver binary), so an unchanged tree is not re-analysed and any edit is.
"""
import fcntl
import hashlib
import os
import shutil
import subprocess
import sys
import time

VERIF = os.path.dirname(os.path.dirname(os.path.abspath(__file__)))
REPO = os.environ.get("VERIF_REPO", "/repo")
CACHE = os.environ.get("VERIF_CACHE") or os.path.join(VERIF, ".cache")
DRIVER = os.path.join(VERIF, "mirfacts", "target", "debug", "mirfacts")

# named configurations: name -> feature list for crate llfree
CONFIGS = {
    "default": [],
    "16K": ["16K"],
    "tree_huge_1": ["tree_huge_1"],
    "tree_huge_2": ["tree_huge_2"],
    "tree_huge_8": ["tree_huge_8"],
    "tree_huge_64": ["tree_huge_64"],
    "tree_huge_512": ["tree_huge_512"],
    "16K+tree_huge_8": ["16K", "tree_huge_8"],
}
QUICK_CONFIGS = ["default"]
THOROUGH_CONFIGS = list(CONFIGS.keys())


def _sysroot():
    return subprocess.check_output(["rustc", "+nightly", "--print", "sysroot"], text=True).strip()


def tree_hash(repo=None):
    repo = repo or REPO
    h = hashlib.sha256()
    paths = []
    for root, dirs, files in os.walk(repo):
        dirs[:] = [d for d in dirs if d not in (".git", "target", "fig")]
        for f in files:
            if f.endswith((".rs", ".toml", ".lock", ".json")):
                paths.append(os.path.join(root, f))
    for p in sorted(paths):
        h.update(os.path.relpath(p, repo).encode())
        h.update(b"\0")
        with open(p, "rb") as fh:
            h.update(fh.read())
        h.update(b"\0")
    try:
        st = os.stat(DRIVER)
        h.update(("%d:%d" % (st.st_size, int(st.st_mtime))).encode())
    except OSError:
        pass
    return h.hexdigest()[:24]


def ensure_driver():
    if os.path.exists(DRIVER):
        src = os.path.join(VERIF, "mirfacts", "src", "main.rs")
        if os.stat(src).st_mtime <= os.stat(DRIVER).st_mtime:
            return
    env = dict(os.environ)
    env["CARGO_NET_OFFLINE"] = "true"
    r = subprocess.run(["cargo", "build", "--offline"], cwd=os.path.join(VERIF, "mirfacts"),
                       env=env, stdout=subprocess.PIPE, stderr=subprocess.STDOUT, text=True)
    if r.returncode != 0:
        sys.stderr.write(r.stdout)
        raise RuntimeError("mirfacts driver failed to build")


class Lock:
    def __init__(self, name):
        os.makedirs(CACHE, exist_ok=True)
        self.path = os.path.join(CACHE, name + ".lock")

    def __enter__(self):
        self.f = open(self.path, "w")
        fcntl.flock(self.f, fcntl.LOCK_EX)
        return self

    def __exit__(self, *a):
        fcntl.flock(self.f, fcntl.LOCK_UN)
        self.f.close()


def _purge_member_fingerprints(target):
    fp = os.path.join(target, "debug", ".fingerprint")
    if os.path.isdir(fp):
        for d in os.listdir(fp):
            if d.startswith(("llfree-", "llfree-eval-")):
                shutil.rmtree(os.path.join(fp, d), ignore_errors=True)


def _run_cargo(kind, features, out_dir, repo):
    """kind: 'core' (package llfree, lib) or 'eval' (package llfree-eval lib + replay bin)."""
    target = os.path.join(CACHE, "target")
    os.makedirs(target, exist_ok=True)
    env = dict(os.environ)
    env["LD_LIBRARY_PATH"] = _sysroot() + "/lib" + (":" + env["LD_LIBRARY_PATH"] if env.get("LD_LIBRARY_PATH") else "")
    env["RUSTFLAGS"] = "-Zmir-opt-level=0 -Awarnings"
    env["RUSTC_WORKSPACE_WRAPPER"] = DRIVER
    env["MIRFACTS_OUT"] = out_dir
    env["CARGO_TARGET_DIR"] = target
    env["CARGO_NET_OFFLINE"] = "true"
    env.pop("RUSTC_WRAPPER", None)
    if kind == "core":
        cmd = ["cargo", "+nightly", "check", "--offline", "-p", "llfree", "--lib"]
        env["MIRFACTS_CRATES"] = "llfree"
    else:
        cmd = ["cargo", "+nightly", "check", "--offline", "-p", "llfree-eval", "--lib", "--bin", "replay"]
        env["MIRFACTS_CRATES"] = "llfree,llfree_eval,replay"
    if features:
        cmd += ["--features", ",".join(features)]
    expected = ["llfree.json"] if kind == "core" else ["llfree.json", "llfree_eval.json", "replay.json"]
    last = ""
    for attempt in range(2):
        _purge_member_fingerprints(target)
        r = subprocess.run(cmd, cwd=repo, env=env, stdout=subprocess.PIPE, stderr=subprocess.STDOUT, text=True)
        last = r.stdout
        if r.returncode != 0:
            raise RuntimeError("cargo check failed for %s %s:\n%s" % (kind, features, r.stdout[-6000:]))
        if all(os.path.exists(os.path.join(out_dir, e)) for e in expected):
            return
    raise RuntimeError("fact files missing after cargo check (%s %s):\n%s" % (kind, features, last[-3000:]))


def facts_dir(kind, config="default", repo=None):
    """Returns the directory holding the fact files for (kind, config), generating them
    from the current working tree if needed."""
    repo = repo or REPO
    features = CONFIGS[config]
    ensure_driver()
    key = ("repo-" if os.path.realpath(repo) == os.path.realpath("/repo") else "scratch-") + tree_hash(repo)
    d = os.path.join(CACHE, "facts", key, kind + "-" + config.replace("+", "_"))
    done = os.path.join(d, ".done")
    if os.path.exists(done):
        return d
    with Lock("facts"):
        if os.path.exists(done):
            return d
        if os.path.isdir(d):
            shutil.rmtree(d)
        os.makedirs(d)
        t0 = time.time()
        _run_cargo(kind, features, d, repo)
        with open(done, "w") as f:
            f.write("%.1f\n" % (time.time() - t0))
        _gc_cache(key)
    return d


def _gc_cache(keep_key):
    """Keep at most 3 fact generations on disk."""
    base = os.path.join(CACHE, "facts")
    try:
        gens = sorted((os.stat(os.path.join(base, g)).st_mtime, g) for g in os.listdir(base))
    except OSError:
        return
    for prefix, keep in (("repo-", 3), ("scratch-", 8)):
        mine = [(m, g) for m, g in gens if g.startswith(prefix)]
        for _, g in mine[:-keep]:
            if g != keep_key:
                shutil.rmtree(os.path.join(base, g), ignore_errors=True)
    for _, g in gens:
        if not g.startswith(("repo-", "scratch-")):
            shutil.rmtree(os.path.join(base, g), ignore_errors=True)


def load_program(kind="core", config="default", repo=None):
    sys.path.insert(0, os.path.dirname(os.path.abspath(__file__)))
    import facts
    d = facts_dir(kind, config, repo)
    names = ["llfree.json"] if kind == "core" else ["llfree.json", "llfree_eval.json", "replay.json"]
    return facts.Program([os.path.join(d, n) for n in names], config=config)


if __name__ == "__main__":
    kind = sys.argv[1] if len(sys.argv) > 1 else "core"
    config = sys.argv[2] if len(sys.argv) > 2 else "default"
    t = time.time()
    print(facts_dir(kind, config), "%.1fs" % (time.time() - t))
