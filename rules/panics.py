"""Panic-capable sites (C09/C03 ledger): enumeration, automatic discharges D0-D4, reviewed table D5."""
import json
import os

import cfg
import lib
import terms as T
from facts import callee_name

VERIF = os.path.dirname(os.path.dirname(os.path.abspath(__file__)))
TABLE = os.path.join(VERIF, "tables", "panic_ledger.json")

API_PREFIX = "<llfree::llfree::LLFree as llfree::Alloc>::"
DIAGNOSTIC = ("validate", "name", "fmt", "metadata")

MAY_PANIC_CORE = {
    "slice::split_at": "mid > len", "slice::split_at_mut": "mid > len", "slice::copy_from_slice": "length mismatch",
    "slice::rotate_right": "k > len", "slice::rotate_left": "k > len", "slice::chunks": "chunk size 0",
    "core::iter::traits::iterator::Iterator::step_by": "step 0", "usize::ilog2": "argument 0", "usize::div_ceil": "divisor 0",
    "usize::next_multiple_of": "argument 0", "usize::next_power_of_two": "overflow", "usize::is_multiple_of": None,
    "<array as core::ops::index::Index>::index": "range out of bounds", "<array as core::ops::index::IndexMut>::index_mut": "range out of bounds",
    "<slice as core::ops::index::Index>::index": "range out of bounds", "<slice as core::ops::index::IndexMut>::index_mut": "range out of bounds",
    "core::alloc::layout::Layout::from_size_align": None, "slice::swap": "index out of bounds",
}
UNWRAPS = {"core::option::Option::unwrap", "core::option::Option::expect", "core::result::Result::unwrap", "core::result::Result::expect",
           "core::result::Result::unwrap_err", "core::result::Result::expect_err"}


def roots(cg):
    r = [n for n in cg.bodies if n.startswith(API_PREFIX) and "::{closure" not in n and n.rsplit("::", 1)[-1] not in DIAGNOSTIC]
    for w in ("ZoneAlloc", "NvmAlloc"):
        r += [n for n in cg.bodies if n.startswith("<llfree::wrapper::%s as llfree::Alloc>::" % w) and "::{closure" not in n
              and n.rsplit("::", 1)[-1] not in DIAGNOSTIC]
    r += ["llfree::wrapper::NvmAlloc::create", "llfree::wrapper::ZoneAlloc::create", "llfree::Classing::new", "llfree::Classing::simple",
          "llfree::Classing::movable"]
    return [x for x in r if x in cg.bodies]


def atoms_of(t, limit=6):
    """Coarse, refactoring-tolerant description of a term: sorted names of parameters, fields, callees and constants."""
    names = set()
    for x in T.walk(t):
        if x[0] == "p":
            names.add(x[2])
        elif x[0] == "up":
            names.add("^" + x[1])
        elif x[0] == "f" and x[3] is not None:
            names.add("." + str(x[3]))
        elif x[0] == "call":
            names.add(x[1].split("::")[-1] + "()")
        elif x[0] == "c":
            names.add(x[2].split("::")[-1] if x[2] else "#%d" % x[1] if abs(x[1]) < 4096 else "#big")
        elif x[0] == "l":
            names.add("var")
    return ",".join(sorted(names)[:limit])


class Site:
    def __init__(self, fn, kind, shape, span, block, detail, debug_only=False):
        self.fn, self.kind, self.shape, self.span, self.block, self.detail = fn, kind, shape, span, block, detail
        self.debug_only = debug_only
        self.discharge = None

    @property
    def key(self):
        return "%s|%s|%s" % (self.fn, self.kind, self.shape)


def is_debug_assert_block(b, bi):
    """Block only reachable through a `cfg!(debug_assertions)` constant switch (debug_assert!)."""
    for s, d in lib.controlling_edges(b, bi):
        t = b.term(s)
        disc = t["discr"]
        if disc["k"] in ("copy", "move") and not disc["place"].get("p"):
            l = disc["place"]["l"]
            defs = b.whole_defs(l)
            if len(defs) == 1 and defs[0][1] != "term":
                rv = b.blocks[defs[0][0]]["stmts"][defs[0][1]]["rv"]
                if rv["k"] == "use" and rv["op"]["k"] == "const" and rv["op"].get("val") == 1:
                    sp = b.blocks[defs[0][0]]["stmts"][defs[0][1]]["span"]
                    if sp.get("m") and any("debug_assert" in m for m in sp["m"]):
                        return True
    return False


def enumerate_sites(prog, cg, reach):
    sites = []
    for name in sorted(reach):
        b = cg.bodies.get(name)
        if b is None or b.crate.name != "llfree":
            continue
        tm = T.Terms(b, prog)
        for bi, blk in enumerate(b.blocks):
            t = blk["term"]
            if t["k"] == "assert":
                m = t["msg"]
                k = m["k"]
                if k in ("misaligned", "null_deref", "invalid_enum", "other"):
                    continue
                if k == "overflow":
                    op = m["op"]
                    a, c = tm.operand(m["a"]), tm.operand(m["b"])
                    kind = "overflow:" + op
                    shape = "%s ; %s" % (atoms_of(a), atoms_of(c))
                    s = Site(name, kind, shape, t["span"], bi, "%s(%s, %s)" % (op, T.show(a)[:90], T.show(c)[:90]))
                    s.a, s.b = a, c
                elif k == "overflow_neg":
                    a = tm.operand(m["a"])
                    s = Site(name, "overflow:Neg", atoms_of(a), t["span"], bi, "Neg(%s)" % T.show(a)[:90])
                    s.a = a
                elif k in ("div_zero", "rem_zero"):
                    a = tm.operand(m["a"])
                    # the divisor is the operand compared with 0 in the condition
                    cond = tm.operand(t["cond"])
                    div = None
                    if cond[0] == "bin" and cond[1] == "Eq":
                        div = cond[2] if T.const_val(cond[3]) == 0 else cond[3]
                    s = Site(name, k, atoms_of(div) if div else "?", t["span"], bi, "divisor %s" % (T.show(div)[:90] if div else "?"))
                    s.a = div
                elif k == "bounds":
                    ln, ix = tm.operand(m["len"]), tm.operand(m["index"])
                    s = Site(name, "bounds", "%s ; %s" % (atoms_of(ix), atoms_of(ln)), t["span"], bi, "index %s < len %s" % (T.show(ix)[:90], T.show(ln)[:60]))
                    s.a, s.b = ix, ln
                else:
                    continue
                sites.append(s)
            elif t["k"] == "call":
                cn = callee_name(t["callee"])
                if cn is None:
                    continue
                if lib.is_panic_callee(cn):
                    msg = ""
                    for a in t["args"]:
                        ta = tm.operand(a)
                        for x in T.walk(ta):
                            if x[0] == "str":
                                msg = x[1]
                    if not msg:
                        # message in a preceding Arguments::from_str / new call
                        for pb in b.pred(bi):
                            pt = b.term(pb)
                            if pt["k"] == "call":
                                for a in pt["args"]:
                                    ta = tm.operand(a)
                                    for x in T.walk(ta):
                                        if x[0] == "str":
                                            msg = x[1]
                    macros = t["span"].get("m") or []
                    kind = "panic"
                    mk = [m_ for m_ in macros if m_ in ("assert", "debug_assert", "assert_eq", "unreachable", "unimplemented", "panic", "assert_ne")]
                    if mk:
                        kind = "panic:" + mk[0]
                    s = Site(name, kind, msg[:60] or cn.split("::")[-1], t["span"], bi, msg or cn, debug_only=is_debug_assert_block(b, bi))
                    sites.append(s)
                elif cn in UNWRAPS:
                    arg = tm.operand(t["args"][0])
                    msg = ""
                    if len(t["args"]) > 1:
                        ta = tm.operand(t["args"][1])
                        if ta[0] == "str":
                            msg = ta[1]
                    s = Site(name, cn.split("::")[-1], msg[:60] or atoms_of(arg), t["span"], bi, "%s on %s" % (cn.split("::")[-1], T.show(arg)[:100]))
                    s.a = arg
                    sites.append(s)
                elif cn in MAY_PANIC_CORE and MAY_PANIC_CORE[cn]:
                    args = [tm.operand(a) for a in t["args"]]
                    s = Site(name, "core:" + cn.split("::")[-1], ";".join(atoms_of(a) for a in args[1:]) or atoms_of(args[0]) if args else "",
                             t["span"], bi, "%s(%s) panics on %s" % (cn, ", ".join(T.show(a)[:50] for a in args), MAY_PANIC_CORE[cn]))
                    s.args = args
                    sites.append(s)
    return sites


ORDER_TERMS = {("p", "order"), ("f", ("p", "request"), "order"), ("up", "order"), ("f", ("up", "request"), "order")}


def _slice_of(t):
    """The slice expression a length term talks about, stripped of references, derefs and unsizing casts."""
    while True:
        t = T.strip_refs(t)
        if t[0] == "cast":
            t = t[1]
            continue
        if t[0] == "*":
            t = t[1]
            continue
        return t


def _indexed_base(b, tm, site):
    """The array/slice expression that the bounds assert of `site` protects: the place indexed by the asserted index local
    in the assert's target block."""
    t = b.term(site.block)
    m = t.get("msg") or {}
    io = m.get("index")
    if not io or io.get("k") not in ("copy", "move") or io["place"].get("p"):
        return None
    il = io["place"]["l"]
    tgt = t.get("target")
    if tgt is None:
        return None

    def scan(place):
        proj = place.get("p") or []
        for n, e in enumerate(proj):
            if e["k"] == "index" and e["l"] == il:
                return tm.place({"l": place["l"], "p": proj[:n]})
        return None
    blk = b.blocks[tgt]
    for st in blk["stmts"]:
        if st["k"] != "assign":
            continue
        for pl in [st["place"]] + [o["place"] for o in lib.operands_of_rv(st["rv"]) if o.get("k") in ("copy", "move")] + (
                [st["rv"]["place"]] if st["rv"].get("place") else []):
            r = scan(pl)
            if r is not None:
                return r
    tt = blk["term"]
    for o in tt.get("args", []) or []:
        if o.get("k") in ("copy", "move"):
            r = scan(o["place"])
            if r is not None:
                return r
    return None


def same_len(ln, t):
    """Is term t the length that the bounds check compares against (ln)? Syntactic: same term, slice::len / PtrMetadata of the
    same slice expression, or the length argument of the from_raw_parts call that created the slice."""
    t = T.strip_casts(t)
    ln = T.strip_casts(ln)
    if T.canon(ln) == T.canon(t):
        return True

    def slice_expr(x):
        if x[0] == "un" and x[1] == "PtrMetadata":
            return _slice_of(x[2])
        if x[0] == "call" and x[1] == "slice::len":
            return _slice_of(x[2][0])
        return None
    a, c = slice_expr(ln), slice_expr(t)
    if a is not None and c is not None and T.canon(a) == T.canon(c):
        return True
    if a is not None and a[0] == "call" and a[1] in ("core::slice::from_raw_parts", "core::slice::from_raw_parts_mut",
                                                       "core::slice::raw::from_raw_parts", "core::slice::raw::from_raw_parts_mut"):
        if T.canon(T.strip_casts(a[2][1])) == T.canon(t):
            return True
    return False


def auto_discharge(prog, cg, site):
    """Returns a reason string or None."""
    b = cg.bodies[site.fn]
    tm = T.Terms(b, prog)
    k = site.kind
    if site.debug_only:
        pass
    if k in ("overflow:Add", "overflow:Mul"):
        return "excluded by assumption: usize add/mul of frame counts (< 2^44) does not overflow"
    if k in ("overflow:Shl", "overflow:Shr"):
        amt = site.b
        v = T.const_val(T.strip_casts(amt))
        if v is None:
            l = T.linear(amt)
            if l is not None and not l[0]:
                v = l[1]
        if v is not None and 0 <= v < 64:
            return "D1: constant shift amount %d" % v
        c = T.canon(T.strip_casts(amt))
        if c in ORDER_TERMS:
            return "D4: shift amount is the allocation order, <= TREE_ORDER by LLFree::check on every API chain (R-CHECK-DOM)"
        # (order - CONST) via checked_sub, or row_bit_idx (% 64)
        if any(x[0] == "call" and x[1] in ("usize::checked_sub",) for x in T.walk(amt)) and any(T.canon(x) in ORDER_TERMS for x in T.walk(amt)):
            return "D4: shift amount is order - HUGE_ORDER (checked_sub), order <= TREE_ORDER"
        if amt[0] == "call" and amt[1] == "llfree::FrameId::row_bit_idx":
            return "D3: row_bit_idx() = x % 64"
        return None
    if k == "overflow:Sub":
        a, c = site.a, site.b
        va, vc = T.const_val(T.strip_casts(a)), T.const_val(T.strip_casts(c))
        if va is not None and vc is not None and va >= vc:
            return "D1: constants"
        # dominating guard c <= a
        for s, d in lib.controlling_edges(b, site.block):
            cnd = tm.operand(b.term(s)["discr"])
            pol = lib.bool_edge_polarity(b, s, d)
            cmp_ = lib.normalize_cmp(cnd) if cnd[0] == "bin" else None
            if cmp_ and pol is not None:
                lhs, rel, rhs = cmp_ if pol else lib.negate_rel(cmp_)
                if rel in ("le", "lt") and T.canon(lhs) == T.canon(c) and T.canon(rhs) == T.canon(a):
                    return "D2: dominated by %s %s %s" % (T.show(lhs)[:40], "<=" if rel == "le" else "<", T.show(rhs)[:40])
        return None
    if k in ("div_zero", "rem_zero"):
        # the divisor is the upper bound of an enclosing `for _ in lo..divisor` loop: the body runs only if divisor > lo >= 0
        if site.a is not None:
            import cfg as _cfg
            dv = T.canon(T.strip_casts(site.a))
            for h, blocks in _cfg.natural_loops(b):
                if site.block not in blocks:
                    continue
                ht = b.term(h)
                if ht["k"] == "call" and (callee_name(ht["callee"]) or "").endswith("::next"):
                    src = tm.call_term(h)[2][0]
                    for z in T.walk(src):
                        if z[0] == "agg" and z[1].startswith("adt:core::ops::range::Range::Range") and len(z[2]) == 2 and \
                                T.canon(T.strip_casts(z[2][1])) == dv:
                            return "D3: divisor is the upper bound of the enclosing range loop (non-zero inside the body)"
        v = T.const_val(T.strip_casts(site.a)) if site.a else None
        if v is not None and v != 0:
            return "D1: constant divisor %d" % v
        if site.a is not None:
            l = T.linear(site.a)
            if l is not None and not l[0] and l[1] != 0:
                return "D1: constant divisor"
        return None
    if k.startswith("core:"):
        args = getattr(site, "args", [])
        name = k[5:]
        if name in ("index", "index_mut") and len(args) == 2:
            r_ = T.strip_refs(args[1])
            hi = None
            if r_[0] == "agg" and "RangeTo::RangeTo" in r_[1]:
                hi = r_[2][0]
            if hi is not None:
                arr = _slice_of(args[0])
                # hi is the enumerate index of an iteration over the same slice: hi < len
                h = T.strip_casts(hi)
                if h[0] == "f" and T.canon(h)[2] == 0 and h[1][0] == "f" and T.canon(h[1])[2] == 0 and h[1][1][0] == "as":
                    nx = h[1][1][1]
                    if nx[0] == "call" and nx[1].endswith("::next"):
                        enum = [x for x in T.walk(nx[2][0]) if x[0] == "call" and x[1].endswith("Iterator::enumerate")]
                        if enum:
                            inner = _slice_of(enum[0][2][0])
                            while inner[0] == "call" and (inner[1] in ("slice::iter", "slice::iter_mut") or inner[1].endswith("into_iter")):
                                inner = _slice_of(inner[2][0])
                            if T.canon(inner) == T.canon(arr):
                                return "D3: ..i with i the enumerate index of an iteration over the same slice (i < len)"
        if name in ("div_ceil", "ilog2", "next_multiple_of", "chunks", "step_by") and args:
            a = args[-1] if name != "ilog2" else args[0]
            v = T.const_val(T.strip_casts(a))
            if v is not None and v != 0:
                return "D1: constant argument %d" % v
            if a[0] == "call" and a[1] in ("core::mem::align_of", "core::mem::size_of"):
                return "D1: %s::<T>() of a sized non-ZST type is >= 1" % a[1].split("::")[-1]
            l = T.linear(a)
            if l is not None and l[1] == 0 and len(l[0]) == 1 and list(l[0].keys())[0][0] == "pow2":
                return "D3: 2^x >= 1"
        return None
    if k == "bounds":
        ix, ln = site.a, site.b
        vl = T.const_val(T.strip_casts(ln))
        vi = T.const_val(T.strip_casts(ix))
        if vl is not None and vi is not None and vi < vl:
            return "D1: constant index %d < %d" % (vi, vl)
        x = T.strip_casts(ix)
        if x[0] == "bin" and x[1] == "Rem":
            m = T.const_val(T.strip_casts(x[3]))
            if m is not None and vl is not None and m <= vl:
                return "D3: index = x %% %d, len %d" % (m, vl)
            if T.canon(x[3]) == T.canon(ln) or (x[3][0] == "call" and x[3][1] == "slice::len" and ln[0] == "un"):
                return "D3: index = x % len"
        if x[0] == "call" and x[1] in ("llfree::bitfield::RowId::huge_idx", "llfree::lower::HugeId::child_idx"):
            return "D3: %s() = x %% const array length" % x[1].split("::")[-1]
        # index produced by iterating lo..C with C <= constant array length
        for y in T.walk(ix):
            if y[0] == "call" and y[1].endswith("::next") and vl is not None:
                for z in T.walk(y[2][0]):
                    if z[0] == "agg" and z[1].startswith("adt:core::ops::range::Range::Range"):
                        hi = T.const_val(T.strip_casts(z[2][1]))
                        if hi is not None and hi <= vl and T.canon(ix) == T.canon(("f", ("as", y, "Some"), 0, None)):
                            return "D3: index iterates a range ending at %d <= len %d" % (hi, vl)
        # array indexed by a variable that iterates lo..array.len() (the assert compares with the constant array length)
        if vl is not None:
            base = _indexed_base(b, tm, site)
            for y in T.walk(ix):
                if y[0] == "call" and y[1].endswith("::next") and T.canon(ix) == T.canon(("f", ("as", y, "Some"), 0, None)) and base is not None:
                    for z in T.walk(y[2][0]):
                        if z[0] == "agg" and z[1].startswith("adt:core::ops::range::Range::Range") and len(z[2]) == 2:
                            hi = T.strip_casts(z[2][1])
                            if hi[0] == "call" and hi[1] == "slice::len" and T.canon(_slice_of(hi[2][0])) == T.canon(_slice_of(base)):
                                return "D3: index iterates lo..len() of the indexed array itself"
        # index produced by iterating lo..len of the same slice
        for y in T.walk(ix):
            if y[0] == "call" and y[1].endswith("::next"):
                src = y[2][0]
                if T.canon(ix) != T.canon(("f", ("as", y, "Some"), 0, None)):
                    continue
                for z in T.walk(src):
                    if z[0] == "agg" and z[1].startswith("adt:core::ops::range::Range::Range") and len(z[2]) == 2 and same_len(ln, z[2][1]):
                        return "D3: index iterates lo..len of the indexed slice"
        # dominating guard ix < len
        for s, d in lib.controlling_edges(b, site.block):
            cnd = tm.operand(b.term(s)["discr"])
            pol = lib.bool_edge_polarity(b, s, d)
            cmp_ = lib.normalize_cmp(cnd) if cnd[0] == "bin" else None
            if cmp_ and pol is not None:
                lhs, rel, rhs = cmp_ if pol else lib.negate_rel(cmp_)
                if rel in ("gt", "ge"):
                    lhs, rhs, rel = rhs, lhs, {"gt": "lt", "ge": "le"}[rel]
                vr = T.const_val(T.strip_casts(rhs))
                if rel == "lt" and T.canon(lhs) == T.canon(ix) and (same_len(ln, rhs) or (vr is not None and vl is not None and vr <= vl)):
                    return "D2: dominated by index < %s" % T.show(rhs)[:40]
        return None
    return None


def load_table():
    if os.path.exists(TABLE):
        return json.load(open(TABLE))
    return {"entries": {}}
