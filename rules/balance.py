"""R-BALANCE: counter conservation on every path (effect analysis with symbolic amounts).

Ledger `held` = frames taken out of a counter (global tree counter, local reservation counter,
huge-entry counter) by this call and not yet handed to another counter or consumed by a
successful lower-level claim. Quiescent invariant G + L = B - offline holds iff every call
returns with held == 0. Amounts are linear forms over canonical terms (2^order, counters
returned by the primitives); effects of fallible primitives are applied on the path edge
where their status becomes known. No execution, no solver: syntactic equality of
normalised linear forms."""
import terms as T
from facts import callee_name
from pathsens import PathSens
import lib

LL = "llfree::llfree::LLFree::"
HELPERS = {
    LL + "get_local", LL + "reserve_or_steal", LL + "steal_global", LL + "steal_local", LL + "demote_local",
    LL + "search_and_reserve", LL + "get_at", "llfree::trees::Trees::search_best", "llfree::trees::Trees::search",
    LL + "check",
}
UPPER_FNS = [
    "<llfree::llfree::LLFree as llfree::Alloc>::get", "<llfree::llfree::LLFree as llfree::Alloc>::put",
    LL + "get_at", LL + "get_local", LL + "reserve_or_steal", LL + "steal_global", LL + "steal_local",
    LL + "demote_local", LL + "search_and_reserve",
    "<llfree::llfree::LLFree as llfree::Alloc>::get::{closure#2}", LL + "search_and_reserve::{closure#1}",
    "<llfree::llfree::LLFree as llfree::Alloc>::drain::{closure#0}",
]
LOWER_FNS = ["llfree::lower::Lower::get", "llfree::lower::Lower::get_at", "llfree::lower::Lower::put_small"]


def lin(t):
    l = T.linear(t)
    if l is None:
        return None
    d = dict(l[0])
    if l[1]:
        d[("const",)] = l[1]
    return d


def lin_add(a, b, sign=1):
    d = dict(a)
    for k, v in b.items():
        d[k] = d.get(k, 0) + sign * v
        if d[k] == 0:
            del d[k]
    return d


def pow2(order_term):
    return {("pow2", T.canon(order_term)): 1}


def payload_free(callterm, path):
    """canonical term of a Reservation.free reached from a call result through `path`
    (list of ('as', 'Some') / ('f', idx))."""
    t = T.canon(callterm)
    for p in path:
        if p[0] == "as":
            t = ("as", t, p[1])
        else:
            t = ("f", t, p[1])
    return t


class Spec:
    """Effect specification of one call site, resolved against the body's terms."""

    def __init__(self, kind, **kw):
        self.kind = kind
        self.__dict__.update(kw)


def upper_effect(b, tm, bi, t):
    """Returns list of effect records for a call site, or None if the callee has no ledger effect.
    record: ('now', amount) | ('on', key, {value: amount | ('then', key2, {value: amount})})"""
    name = callee_name(t["callee"])
    if name is None:
        return None
    a = [tm.operand(x) for x in t["args"]]
    call = tm.call_term(bi)
    dl = t["dest"]["l"]
    ck = ("c", bi)
    if name == "llfree::trees::Trees::steal":
        return [("on", ck, {1: lin(a[3])})]
    if name == "llfree::trees::Trees::reserve_or_steal":
        free = {payload_free(call, [("as", "Some"), ("f", 0), ("f", 1)]): 1}
        return [("on", ck, {1: ("then", ("pv", dl, ("as1", ".0", ".0")), {1: free, 0: lin(a[3])})})]
    if name == "llfree::trees::Trees::sync":
        return [("on", ck, {1: {payload_free(call, [("as", "Some"), ("f", 0)]): 1}})]
    if name == "llfree::local::Locals::get":
        return [("on", ck, {0: lin(a[4])})]
    if name == "llfree::local::Locals::steal_any":
        return [("on", ck, {1: lin(a[4])})]
    if name == "llfree::local::Locals::demote_any":
        oldfree = {payload_free(call, [("as", "Some"), ("f", 0), ("f", 1), ("as", "Some"), ("f", 0), ("f", "free")]): 1}
        return [("on", ck, {1: ("all", [lin(a[4]), ("then", ("d", dl, ("as1", ".0", ".1")), {1: oldfree})])})]
    if name == "llfree::trees::Trees::put":
        return [("now", _neg(lin(a[2])))]
    if name == "llfree::trees::Trees::unreserve":
        return [("now", _neg(lin(a[2])))]
    if name == "llfree::local::Locals::put":
        return [("on", ck, {1: _neg(lin(a[4]))})]
    if name == "llfree::local::Locals::swap":
        oldfree = {payload_free(call, [("as", "Some"), ("f", 0), ("f", "free")]): 1}
        return [("now", _neg(lin(a[4]))), ("on", ("d", dl, ()), {1: oldfree})]
    if name == "llfree::lower::Lower::get":
        return [("on", ck, {0: _neg(pow2(a[2]))})]
    if name == "llfree::lower::Lower::put":
        return [("on", ck, {0: pow2(a[2])})]
    return None


def lower_effect(b, tm, bi, t, prog):
    name = callee_name(t["callee"])
    if name is None:
        return None
    a = [tm.operand(x) for x in t["args"]]
    ck = ("c", bi)
    if name == "llfree::atomic::Atom::try_update":
        clos = [x for x in T.walk(a[1]) if x[0] == "agg" and x[1].startswith("closure:")]
        if not clos:
            return None
        cb = prog.body(clos[0][1][len("closure:"):])
        if cb is None:
            return None
        ctm = T.Terms(cb, prog)
        for _, c in cb.calls():
            cn = callee_name(c["callee"])
            if cn in ("llfree::lower::HugeEntry::dec", "llfree::lower::HugeEntry::inc"):
                amt = _subst_upvars(ctm.operand(c["args"][1]), cb, clos[0], tm)
                l = lin(amt)
                return [("on", ck, {0: l if cn.endswith("dec") else _neg(l)})]
        return None
    if name == "llfree::bitfield::Bitfield::set_first_zeros":
        return [("on", ck, {0: _neg(pow2(a[2]))})]
    if name == "llfree::bitfield::Bitfield::toggle":
        exp = T.const_val(a[3])
        if exp == 0:
            return [("on", ck, {0: _neg(pow2(a[2]))})]
        if exp == 1:
            return [("on", ck, {0: pow2(a[2])})]
        return [("unknown", "toggle with non-constant `expected`")]
    return None


def _subst_upvars(t, cb, closure_agg, parent_tm):
    """Replaces ('up', name) in a closure term by the captured operand's term in the parent."""
    names = [u["name"] for u in cb.j.get("upvars", [])]
    caps = dict(zip(names, closure_agg[2]))

    def go(x):
        if not isinstance(x, tuple):
            return x
        if x and x[0] == "up" and x[1] in caps:
            return T.strip_refs(caps[x[1]])
        return tuple(go(y) if isinstance(y, tuple) else y for y in x)
    return go(t)


def _neg(l):
    return None if l is None else {k: -v for k, v in l.items()}


def _freeze(d):
    return frozenset(d.items())


def explore(b, prog, effect_fn, initial=None, max_states=40000):
    """Product exploration. Returns list of (return node, held dict, pending list, path blocks)."""
    errdom = lib.error_domains(prog)
    ps = PathSens(b, prog, err_domains=errdom)
    tm = T.Terms(b, prog)
    site_eff = {}
    unknown_sites = []
    for bi, t in b.calls():
        e = effect_fn(b, tm, bi, t)
        if e:
            for rec in e:
                if rec[0] == "unknown":
                    unknown_sites.append((bi, rec[1]))
                if (rec[0] == "now" and rec[1] is None) or (rec[0] == "on" and any(
                        v is None for v in rec[2].values())):
                    unknown_sites.append((bi, "amount is not a linear form"))
            site_eff[bi] = e
    start = (ps.entry, _freeze(initial or {}), ())
    seen = {start: None}
    work = [start]
    results = []
    while work:
        st = work.pop()
        n, held_f, pending = st
        bi = ps.block_of(n)
        held = dict(held_f)
        pend = list(pending)
        if b.term(bi)["k"] == "return":
            env = ps.term_env_of(n)
            held, pend = _resolve(held, pend, env)
            results.append((n, held, pend, _path(seen, st, ps)))
            continue
        outs = ps.succs.get(n, [])
        # effects of this block's call (applied on the way out)
        new_pending = []
        if bi in site_eff and b.term(bi)["k"] == "call":
            for rec in site_eff[bi]:
                if rec[0] == "now" and rec[1] is not None:
                    held = lin_add(held, rec[1])
                elif rec[0] == "on":
                    new_pending.append((rec[1], _freeze_map(rec[2])))
            # a re-executed call site forgets its old pending status effect
            pend = [p for p in pend if p[0] != ("c", bi)]
        for (s, _label) in outs:
            env2 = ps.env_of(s)
            h2, p2 = _resolve(dict(held), pend + new_pending, env2)
            st2 = (s, _freeze(h2), tuple(p2))
            if st2 not in seen:
                seen[st2] = st
                work.append(st2)
                if len(seen) > max_states:
                    raise RuntimeError("R-BALANCE: too many product states in %s" % b.name)
    return results, unknown_sites, ps


def _keyname(k):
    if k[0] == "c":
        return "result of call at bb%d" % k[1]
    return "%s(_%d%s)" % (k[0], k[1], "".join(k[2]))


def _freeze_map(m):
    out = []
    for k, v in m.items():
        if isinstance(v, tuple) and v and v[0] == "then":
            out.append((k, ("then", v[1], _freeze_map(v[2]))))
        elif isinstance(v, tuple) and v and v[0] == "all":
            out.append((k, ("all", tuple(("then", x[1], _freeze_map(x[2])) if isinstance(x, tuple) else _freeze(x)
                                         for x in v[1]))))
        else:
            out.append((k, _freeze(v) if v is not None else None))
    return tuple(sorted(out, key=repr))


def _resolve(held, pend, env):
    changed = True
    while changed:
        changed = False
        rest = []
        for key, m in pend:
            if key in env:
                val = env[key]
                eff = dict(m).get(val)
                if eff is None:
                    pass
                elif isinstance(eff, tuple) and eff and eff[0] == "then":
                    rest.append((eff[1], eff[2]))
                    changed = True
                elif isinstance(eff, tuple) and eff and eff[0] == "all":
                    for x in eff[1]:
                        if isinstance(x, tuple) and x and x[0] == "then":
                            rest.append((x[1], x[2]))
                        else:
                            held = lin_add(held, dict(x))
                    changed = True
                else:
                    held = lin_add(held, dict(eff))
                changed = True
            else:
                rest.append((key, m))
        pend = rest
        if not any(k in env for k, _ in pend):
            break
    return held, pend


def _path(seen, st, ps):
    out = []
    while st is not None:
        out.append(ps.block_of(st[0]))
        st = seen[st]
    out.reverse()
    # compress
    comp = []
    for x in out:
        if not comp or comp[-1] != x:
            comp.append(x)
    return comp


def show_held(h):
    if not h:
        return "0"
    parts = []
    for k, v in sorted(h.items(), key=repr):
        if k == ("const",):
            parts.append("%+d" % v)
        elif k[0] == "pow2":
            parts.append("%+d*2^(%s)" % (v, T.show(_uncanon(k[1]))))
        else:
            parts.append("%+d*%s" % (v, T.show(_uncanon(k))))
    return " ".join(parts)


def _uncanon(t):
    """Best-effort pretty printing of canonical terms."""
    if not isinstance(t, tuple) or not t:
        return t
    if t[0] == "p" and len(t) == 2:
        return ("p", 0, t[1])
    if t[0] == "c" and len(t) == 2:
        return ("c", t[1], None)
    if t[0] == "f" and len(t) == 3:
        return ("f", _uncanon(t[1]), t[2], t[2])
    if t[0] == "call" and len(t) == 3:
        return ("call", t[1], tuple(_uncanon(a) for a in t[2]), 0)
    return tuple(_uncanon(x) if isinstance(x, tuple) else x for x in t)


def check_function(rep, prog, rule, fn, effect_fn, initial=None, expect_final=None, only=None):
    """only: None (all returns) | 'err' (only Err/None returns)."""
    b = lib.need_body(prog, fn)
    rep.saw(fn)
    results, unknown_sites, ps = explore(b, prog, effect_fn, initial)
    for bi, why in unknown_sites:
        rep.violation(rule, "%s|amount|bb" % fn, "cannot determine the amount moved by the call at %s: %s" % (
            lib.span_of(b.term(bi)), why), b.term(bi).get("span"))
    n = 0
    bad = {}
    for (node, held, pend, path) in results:
        d = ps.ret_discr(node)
        ty = b.local_ty(0)
        kind = "?"
        if ty.startswith("core::result::Result<"):
            kind = {0: "Ok", 1: "Err"}.get(d, "delegated")
        elif ty.startswith("core::option::Option<"):
            kind = {1: "Some", 0: "None"}.get(d, "delegated")
        elif ty == "()":
            kind = "unit"
        if only == "err" and kind not in ("Err", "None", "delegated"):
            continue
        n += 1
        target = expect_final or {}
        key = "%s|return|%s" % (fn, kind)
        # a fallible call whose status is never tested on this path (its result is returned or dropped):
        # the ledger must balance for every status it can have
        alts = [(held, "")]
        for pk, pm in pend:
            nxt = []
            for h, label in alts:
                vals = set(dict(pm).keys()) | ({0, 1} if pk[0] in ("c", "d", "pv") else set())
                for v in sorted(vals):
                    if only == "err" and pk[0] == "c" and dict(pm).get(v) is not None and kind == "delegated":
                        # the success alternative of a delegated return is not a failing call
                        continue
                    h2, p2 = _resolve(dict(h), [(pk, pm)], {pk: v})
                    if p2:
                        for vv in (0, 1):
                            h3, _ = _resolve(dict(h2), p2, {p2[0][0]: vv})
                            nxt.append((h3, label + " [%s=%s,%s=%s]" % (_keyname(pk), v, _keyname(p2[0][0]), vv)))
                    else:
                        nxt.append((h2, label + " [%s=%s]" % (_keyname(pk), v)))
            alts = nxt
        wrong = [(h, label) for h, label in alts if h != target]
        ok = not wrong
        if not ok:
            h, label = wrong[0]
            why = "held = %s at a %s return" % (show_held(lin_add(h, target, -1)), kind)
            if label:
                why += " when%s (status of a fallible call that is not tested on this path)" % label
            if bad.get(key) is None:
                bad[key] = (why, path)
        else:
            bad.setdefault(key, None)
    for key, v in sorted(bad.items()):
        if v is None:
            rep.ok(rule, key, "balanced on every path to this kind of return")
        else:
            why, path = v
            rep.violation(rule, key, "counter conservation broken: %s (frames leave or enter the free counters without "
                          "a matching lower-level change). Path: %s" % (why, " -> ".join("bb%d" % x for x in path)),
                          b.span, path=path)
    return n
