"""Path-sensitive propagation of discriminants / small scalars over a MIR body.

This is constant propagation with trace partitioning (a classic dataflow analysis):
the abstract state is a partial map from places to known discriminant values, from
scalar locals to known values, and from *call sites* to the known status of their
result.  Edges contradicting the state are pruned.  No solver, no execution.

The result is a finite state graph whose nodes are (block, env); rules run
dominance-style and typestate queries over it.
"""
from facts import place_str, callee_name

# relation tables: callee -> (in_kind, out_kind, {(in, out)})
#   kinds: 'd' discriminant of the place, 'v' scalar value
_ID = {(0, 0), (1, 1)}
_SW = {(0, 1), (1, 0)}
STD_REL = {
    "<core::result::Result as core::ops::try_trait::Try>::branch": ("d", "d", _ID),
    "<core::option::Option as core::ops::try_trait::Try>::branch": ("d", "d", _SW),
    "core::result::Result::ok": ("d", "d", _SW),
    "core::result::Result::err": ("d", "d", _ID),
    "core::result::Result::map": ("d", "d", _ID),
    "core::result::Result::map_err": ("d", "d", _ID),
    "core::result::Result::as_ref": ("d", "d", _ID),
    "core::option::Option::map": ("d", "d", _ID),
    "core::option::Option::as_ref": ("d", "d", _ID),
    "core::option::Option::copied": ("d", "d", _ID),
    "core::option::Option::cloned": ("d", "d", _ID),
    "core::option::Option::ok_or": ("d", "d", _SW),
    "core::option::Option::ok_or_else": ("d", "d", _SW),
    "core::result::Result::is_ok": ("d", "v", _SW),
    "core::result::Result::is_err": ("d", "v", _ID),
    "core::option::Option::is_some": ("d", "v", _ID),
    "core::option::Option::is_none": ("d", "v", _SW),
    "core::option::Option::is_some_and": ("d", "v", {(0, 0), (1, 0), (1, 1)}),
    "core::option::Option::is_none_or": ("d", "v", {(0, 1), (1, 0), (1, 1)}),
    "core::option::Option::and_then": ("d", "d", {(0, 0), (1, 0), (1, 1)}),
    "core::option::Option::filter": ("d", "d", {(0, 0), (1, 0), (1, 1)}),
    "core::result::Result::and_then": ("d", "d", {(1, 1), (0, 0), (0, 1)}),
    "core::option::Option::transpose": ("d", "d", {(0, 0), (1, 0), (1, 1)}),
    "bool::then_some": ("v", "d", _ID),
    "bool::then": ("v", "d", _ID),
    "<core::result::Result as core::ops::try_trait::FromResidual>::from_residual": (None, "d", {(None, 1)}),
    "<core::option::Option as core::ops::try_trait::FromResidual>::from_residual": (None, "d", {(None, 0)}),
}
# callee returns only if its first argument has this discriminant
ASSERTING = {
    "core::option::Option::unwrap": 1,
    "core::option::Option::expect": 1,
    "core::result::Result::unwrap": 0,
    "core::result::Result::expect": 0,
    "core::result::Result::unwrap_err": 1,
    "core::result::Result::expect_err": 1,
}

STD_DOMAINS = {
    "core::option::Option": {0, 1},
    "core::result::Result": {0, 1},
    "core::ops::control_flow::ControlFlow": {0, 1},
}

FALLIBLE_TY_PREFIX = ("core::result::Result<", "core::option::Option<", "bool",
                      "core::ops::ControlFlow<", "core::ops::control_flow::ControlFlow<")


class TooManyStates(Exception):
    pass


class Infeasible(Exception):
    pass


def _root_local_of_key(k):
    return k[1]


class PathSens:
    def __init__(self, body, program, track=None, local_crates=("llfree", "llfree_eval", "replay"),
                 max_states=60000, reset_edges=None, err_domains=None, keep_dead=False):
        self.body = body
        self.program = program
        self.local_crates = set(local_crates)
        self.track = track  # optional predicate(callee_name) -> bool for c-facts
        self.max_states = max_states
        # (from_block, to_block) -> call-site blocks whose status fact is forgotten on that edge
        self.reset_edges = reset_edges or {}
        # callee name -> set of llfree::Error discriminants its Err results can carry
        self.err_domains = err_domains or {}
        # keep_dead: facts about a temporary survive its StorageDead (sound in loop-free bodies, where a local is written once per path)
        self.keep_dead = keep_dead
        self._build_static()
        self.nodes = {}      # node -> index
        self.node_list = []
        self.succs = {}      # node index -> list of (node index, edge label)
        self.term_envs = {}  # node index -> env after the block's statements (at the terminator)
        self.entry = None
        self.truncated = False
        self._run()

    # ------------------------------------------------------------------ static tables
    def _build_static(self):
        b = self.body
        self.single = {}  # local -> ('stmt', bi, si, stmt) | ('call', bi, term)
        for l in range(len(b.locals)):
            wd = b.whole_defs(l)
            alld = b.defs().get(l, [])
            if l >= 1 and l <= b.arg_count:
                continue
            if len(wd) == 1 and len(alld) == 1:
                bi, si = wd[0]
                if si == "term":
                    self.single[l] = ("call", bi, b.blocks[bi]["term"])
                else:
                    self.single[l] = ("stmt", bi, si, b.blocks[bi]["stmts"][si])
        # stable locals: args never reassigned, or single-def
        self.stable = set(self.single.keys())
        for l in range(1, b.arg_count + 1):
            if not b.defs().get(l):
                self.stable.add(l)
        # static aliases
        self.alias = {}
        for l, d in self.single.items():
            if d[0] != "stmt":
                continue
            rv = d[3]["rv"]
            src = None
            is_ref = False
            if rv["k"] == "use" and rv["op"]["k"] in ("copy", "move"):
                src = rv["op"]["place"]
            elif rv["k"] in ("ref", "rawptr"):
                src = rv["place"]
                is_ref = True
            if src is None:
                continue
            if src["l"] not in self.stable:
                continue
            # index projections depend on another local's value; do not alias through them
            if any(e["k"] == "index" for e in (src.get("p") or [])):
                continue
            self.alias[l] = (src, is_ref)

    def canon_place(self, place, depth=0):
        """Returns (root_local, string) of the place after static alias resolution."""
        l = place["l"]
        proj = list(place.get("p") or [])
        while l in self.alias and depth < 32:
            depth += 1
            src, is_ref = self.alias[l]
            if is_ref:
                if proj and proj[0]["k"] == "deref":
                    proj = list(src.get("p") or []) + proj[1:]
                    l = src["l"]
                else:
                    break
            else:
                proj = list(src.get("p") or []) + proj
                l = src["l"]
        return l, proj_tokens(proj)

    def referent(self, op):
        """For an operand that is a reference/copy of a place, the canonical place the
        value (or the referent, for `&P`) denotes: (root, string) or None."""
        if op["k"] not in ("copy", "move"):
            return None
        place = op["place"]
        l = place["l"]
        if not place.get("p") and l in self.alias:
            src, is_ref = self.alias[l]
            if is_ref:
                return self.canon_place(src)
        return self.canon_place(place)

    # ------------------------------------------------------------------ env helpers
    @staticmethod
    def _kill_local(env, l, dead=False):
        for k in [k for k in env if k[0] != "c" and k[1] == l]:
            del env[k]
        if dead:
            return      # the storage ends, the value it held (and what was derived from it) does not change
        # relations `x = l` / `x = !l` recorded for other locals no longer hold once l is assigned again
        for k in [k for k, v in env.items() if k[0] == "rel" and v[1] == l]:
            del env[k]

    def _kill_prefix(self, env, root, s):
        for k in [k for k in env if k[0] in ("d", "pv", "nd") and k[1] == root and k[2][:len(s)] == s]:
            del env[k]

    def _learn(self, env, key, val, depth=0):
        if key in env:
            if env[key] != val:
                raise Infeasible()
            return
        env[key] = val
        if depth > 16:
            return
        b = self.body
        if key[0] == "v":
            l = key[1]
            cd = env.get(("cd", l))
            if cd is not None:
                self._learn(env, ("c", cd), val, depth + 1)
            rel = env.get(("rel", l))
            if rel is not None and val in (0, 1):
                # path-local relation recorded when a multi-definition bool was assigned from a value not yet known
                self._learn(env, ("v", rel[1]), val if rel[0] == "id" else 1 - val, depth + 1)
            d = self.single.get(l)
            if d is None:
                return
            if d[0] == "stmt":
                rv = d[3]["rv"]
                if rv["k"] == "discr":
                    r, s = self.canon_place(rv["place"])
                    self._learn(env, ("d", r, s), val, depth + 1)
                elif rv["k"] == "unop" and rv["op"] == "Not" and rv["a"]["k"] in ("copy", "move"):
                    if b.local_ty(l) == "bool":
                        r, s = self.canon_place(rv["a"]["place"])
                        if s == ():
                            self._learn(env, ("v", r), 1 - val, depth + 1)
                elif rv["k"] == "binop" and rv["op"] in ("Eq", "Ne"):
                    a, c = rv["a"], rv["b"]
                    if a["k"] == "const":
                        a, c = c, a
                    if c["k"] == "const" and "val" in c and a["k"] in ("copy", "move"):
                        eq = (rv["op"] == "Eq") == (val == 1)
                        r, s = self.canon_place(a["place"])
                        if eq and s == ():
                            self._learn(env, ("v", r), c["val"], depth + 1)
                elif rv["k"] == "cast" and rv["kind"] == "IntToInt" and rv["op"]["k"] in ("copy", "move"):
                    pass
            else:
                self._learn_call_result(env, d, "v", val, depth)
        elif key[0] == "d":
            r, s = key[1], key[2]
            if s != ():
                return
            d = self.single.get(r)
            if d is None or d[0] != "call":
                return
            self._learn_call_result(env, d, "d", val, depth)

    def _learn_call_result(self, env, d, kind, val, depth):
        _, bi, t = d
        name = callee_name(t["callee"])
        if name is None:
            if self._tracked_call(t):
                self._learn(env, ("c", bi), val, depth + 1)
            return
        rel = STD_REL.get(name)
        if rel is not None and self.track is not None and self.track(name):
            self._learn(env, ("c", bi), val, depth + 1)
        if rel is not None:
            kin, kout, pairs = rel
            if kout != kind or kin is None:
                return
            cands = {i for (i, o) in pairs if o == val}
            if len(cands) == 1 and t["args"]:
                ref = self.referent(t["args"][0])
                if ref is not None:
                    (i,) = cands
                    r, s = ref
                    if kin == "d":
                        self._learn(env, ("d", r, s), i, depth + 1)
                    elif s == ():
                        self._learn(env, ("v", r), i, depth + 1)
            return
        if self._tracked_call(t):
            self._learn(env, ("c", bi), val, depth + 1)

    def _tracked_call(self, t):
        c = t["callee"]
        if c.get("indirect"):
            # calls through the policy function pointer: remember the verdict per call site
            ty = self.body.local_ty(t["dest"]["l"])
            return ty == "Policy" or ty.endswith("::Policy")
        name = callee_name(c)
        if self.track is not None:
            return self.track(name)
        krate = c.get("res_krate") or c.get("krate")
        if krate not in self.local_crates:
            return False
        dl = t["dest"]["l"]
        ty = self.body.local_ty(dl)
        return ty.startswith(FALLIBLE_TY_PREFIX)

    # ------------------------------------------------------------------ transfer
    def _domain_of_discr(self, rv):
        of = rv.get("of")
        if of == "llfree::Error" and self.err_domains:
            r, s = self.canon_place(rv["place"])
            d = self.single.get(r)
            if d is not None and d[0] == "call" and s and s[0] == "as1":
                name = callee_name(d[2]["callee"])
                if name in self.err_domains:
                    return set(self.err_domains[name])
        if of in STD_DOMAINS:
            return STD_DOMAINS[of]
        for c in self.program.crates.values():
            a = c.adts.get(of)
            if a and a["kind"] == "enum":
                return {v["discr"] for v in a["variants"]}
        return None

    def _assign(self, env, s):
        b = self.body
        place = s["place"]
        rv = s["rv"]
        l = place["l"]
        if place.get("p"):
            r, ps = self.canon_place(place)
            self._kill_prefix(env, r, ps)
            return
        # gather forward facts before killing (rv may read l itself)
        new = {}
        k = rv["k"]
        if k == "use":
            op = rv["op"]
            if op["k"] == "const":
                if "val" in op and isinstance(op["val"], int):
                    new[("v", l)] = op["val"]
            elif op["k"] in ("copy", "move") and l not in self.alias:
                r, s_ = self.canon_place(op["place"])
                if s_ == () and ("v", r) in env:
                    new[("v", l)] = env[("v", r)]
                elif s_ == () and r != l and b.local_ty(l) == "bool":
                    new[("rel", l)] = ("id", r)
                for key, v in env.items():
                    if key[0] == "d" and key[1] == r and key[2][:len(s_)] == s_:
                        new[("d", l, key[2][len(s_):])] = v
        elif k == "discr":
            r, s_ = self.canon_place(rv["place"])
            if ("d", r, s_) in env:
                new[("v", l)] = env[("d", r, s_)]
        elif k == "aggregate":
            kd = rv["kind"]
            if kd["k"] == "adt" and kd.get("discr") is not None:
                new[("d", l, ())] = kd["discr"]
            if kd["k"] in ("adt", "tuple"):
                for i, op in enumerate(rv["ops"]):
                    if kd["k"] == "adt" and kd.get("discr") is not None:
                        pre = ("as%d" % kd["vi"], ".%d" % i)
                    else:
                        pre = (".%d" % i,)
                    if op["k"] in ("copy", "move"):
                        r, s_ = self.canon_place(op["place"])
                        for key, v in env.items():
                            if key[0] == "d" and key[1] == r and key[2][:len(s_)] == s_:
                                new[("d", l, pre + key[2][len(s_):])] = v
        elif k == "unop" and rv["op"] == "Not" and rv["a"]["k"] in ("copy", "move"):
            r, s_ = self.canon_place(rv["a"]["place"])
            if s_ == () and ("v", r) in env and b.local_ty(l) == "bool":
                new[("v", l)] = 1 - env[("v", r)]
            elif s_ == () and r != l and b.local_ty(l) == "bool":
                new[("rel", l)] = ("not", r)
        elif k == "binop" and rv["op"] in ("Eq", "Ne", "Lt", "Le", "Gt", "Ge"):
            va = self._opval(env, rv["a"])
            vb = self._opval(env, rv["b"])
            if va is not None and vb is not None:
                op = rv["op"]
                res = {"Eq": va == vb, "Ne": va != vb, "Lt": va < vb, "Le": va <= vb,
                       "Gt": va > vb, "Ge": va >= vb}[op]
                new[("v", l)] = int(res)
        elif k == "cast" and rv["kind"] == "IntToInt":
            va = self._opval(env, rv["op"])
            if va is not None:
                new[("v", l)] = va
        self._kill_local(env, l)
        env.update(new)

    def _opval(self, env, op):
        if op["k"] == "const":
            v = op.get("val")
            return v if isinstance(v, int) else None
        if op["k"] in ("copy", "move"):
            r, s = self.canon_place(op["place"])
            if s == ():
                return env.get(("v", r))
            return env.get(("pv", r, s))
        return None

    def _block_transfer(self, bi, env_in):
        """Returns list of (succ block, env dict, label)."""
        b = self.body
        env = dict(env_in)
        blk = b.blocks[bi]
        for s in blk["stmts"]:
            k = s["k"]
            if k == "assign":
                self._assign(env, s)
            elif k == "set_discr":
                r, ps = self.canon_place(s["place"])
                self._kill_prefix(env, r, ps)
            elif k == "dead":
                if s["l"] not in self.alias and not self.keep_dead:
                    self._kill_local(env, s["l"], dead=True)
        t = blk["term"]
        k = t["k"]
        out = []
        self._term_env_tmp = dict(env)
        if k == "goto":
            out.append((t["target"], env, None))
        elif k == "drop":
            out.append((t["target"], env, None))
        elif k == "assert":
            try:
                c = t["cond"]
                if c["k"] in ("copy", "move"):
                    r, s = self.canon_place(c["place"])
                    if s == ():
                        self._learn(env, ("v", r), int(t["expected"]))
                elif c["k"] == "const" and isinstance(c.get("val"), int):
                    if c["val"] != int(t["expected"]):
                        raise Infeasible()
                out.append((t["target"], env, None))
            except Infeasible:
                pass
        elif k == "call":
            dl = t["dest"]["l"]
            name = callee_name(t["callee"])
            new = {}
            feasible = True
            rel = STD_REL.get(name)
            if rel is not None:
                kin, kout, pairs = rel
                outs = None
                if kin is None:
                    outs = {o for (_, o) in pairs}
                elif t["args"]:
                    ref = self.referent(t["args"][0])
                    if ref is not None:
                        r, s = ref
                        known = env.get(("d", r, s)) if kin == "d" else (
                            env.get(("v", r)) if s == () else None)
                        if known is not None:
                            outs = {o for (i, o) in pairs if i == known}
                if outs is not None and len(outs) == 1:
                    (o,) = outs
                    if kout == "d":
                        new[("d", dl, ())] = o
                    else:
                        new[("v", dl)] = o
            if name in ASSERTING and t["args"]:
                ref = self.referent(t["args"][0])
                if ref is not None:
                    try:
                        self._learn(env, ("d", ref[0], ref[1]), ASSERTING[name])
                    except Infeasible:
                        feasible = False
            if feasible and t.get("target") is not None:
                if not t["dest"].get("p"):
                    self._kill_local(env, dl)
                env.pop(("c", bi), None)
                env.update(new)
                # a multi-definition bool written by a tracked call: remember which call defined it on this path, so that a
                # later test of the local refines that call's status
                if not t["dest"].get("p") and dl not in self.single and self.body.local_ty(dl) == "bool" and self._tracked_call(t):
                    env[("cd", dl)] = bi
                out.append((t["target"], env, None))
        elif k == "switch":
            d = t["discr"]
            if d["k"] == "const" and isinstance(d.get("val"), int):
                tg = None
                for v, x in t["targets"]:
                    if v == d["val"]:
                        tg = x
                if tg is None:
                    tg = t["otherwise"]
                out.append((tg, env, ("sw", d["val"])))
            elif d["k"] in ("copy", "move"):
                r, s = self.canon_place(d["place"])
                key = ("v", r) if s == () else ("pv", r, s)
                domain = None
                if key is not None:
                    sd = self.single.get(r)
                    if sd and sd[0] == "stmt" and sd[3]["rv"]["k"] == "discr":
                        domain = self._domain_of_discr(sd[3]["rv"])
                    elif t.get("dty") == "bool":
                        domain = {0, 1}
                listed = [v for v, _ in t["targets"]]
                known = env.get(key) if key is not None else None
                for v, tg in t["targets"]:
                    if known is not None and known != v:
                        continue
                    e2 = dict(env)
                    try:
                        if key is not None:
                            self._learn(e2, key, v)
                        out.append((tg, e2, ("sw", v)))
                    except Infeasible:
                        pass
                # otherwise edge
                if known is not None and known in listed:
                    pass
                else:
                    e2 = dict(env)
                    ok = True
                    if key is not None and domain is not None and known is None:
                        rest = set(domain) - set(listed)
                        if len(rest) == 0:
                            ok = False
                        elif len(rest) == 1:
                            (v,) = rest
                            try:
                                self._learn(e2, key, v)
                            except Infeasible:
                                ok = False
                    if ok and known is None and key not in e2:
                        # remember which values the otherwise edge excludes for a tested discriminant
                        sd = self.single.get(r) if s == () else None
                        if sd and sd[0] == "stmt" and sd[3]["rv"]["k"] == "discr":
                            pr, pp = self.canon_place(sd[3]["rv"]["place"])
                            prev = e2.get(("nd", pr, pp), ())
                            e2[("nd", pr, pp)] = tuple(sorted(set(prev) | set(listed)))
                    if ok:
                        out.append((t["otherwise"], e2, ("sw", "otherwise")))
            else:
                for v, tg in t["targets"]:
                    out.append((tg, dict(env), ("sw", v)))
                out.append((t["otherwise"], dict(env), ("sw", "otherwise")))
        # return / unreachable / other: no successors
        return out

    # ------------------------------------------------------------------ exploration
    def _intern(self, bi, env):
        key = (bi, frozenset(env.items()))
        idx = self.nodes.get(key)
        if idx is None:
            idx = len(self.node_list)
            self.nodes[key] = idx
            self.node_list.append((bi, env))
            return idx, True
        return idx, False

    def _run(self):
        self.entry, _ = self._intern(0, {})
        work = [self.entry]
        while work:
            n = work.pop()
            if n in self.succs:
                continue
            bi, env = self.node_list[n]
            outs = []
            transfers = self._block_transfer(bi, env)
            self.term_envs[n] = self._term_env_tmp
            for (tb, e2, label) in transfers:
                for cb in self.reset_edges.get((bi, tb), ()):
                    e2.pop(("c", cb), None)
                idx, fresh = self._intern(tb, e2)
                outs.append((idx, label))
                if fresh:
                    work.append(idx)
            self.succs[n] = outs
            if len(self.node_list) > self.max_states:
                raise TooManyStates("%s: more than %d states" % (self.body.name, self.max_states))

    # ------------------------------------------------------------------ queries
    def states_at(self, bi):
        return [(i, env) for i, (b, env) in enumerate(self.node_list) if b == bi]

    def block_of(self, n):
        return self.node_list[n][0]

    def env_of(self, n):
        return self.node_list[n][1]

    def out_env(self, n):
        """Environment after executing block statements+terminator facts for successors:
        list of (succ node, env)."""
        return [(s, self.node_list[s][1]) for s, _ in self.succs.get(n, [])]

    def reachable_blocks(self):
        return {b for (b, _) in self.node_list}

    def call_status(self, env, bi):
        return env.get(("c", bi))

    def discr(self, env, place):
        r, s = self.canon_place(place)
        return env.get(("d", r, s))

    def discr_str(self, env, root, s):
        return env.get(("d", root, s))

    def return_nodes(self):
        return [i for i, (b, _) in enumerate(self.node_list) if self.body.term(b)["k"] == "return"]

    def ret_discr(self, n):
        """Discriminant of `_0` at a return node (None if unknown)."""
        env = self.term_env_of(n)
        return env.get(("d", 0, ()))

    def term_env_of(self, n):
        """Environment at the terminator of the node's block (after its statements)."""
        return self.term_envs.get(n, self.node_list[n][1])

    def states_at_term(self, bi):
        return [(i, self.term_env_of(i)) for i, (b, env) in enumerate(self.node_list) if b == bi]

    def preds(self):
        p = {}
        for n, outs in self.succs.items():
            for s, _ in outs:
                p.setdefault(s, []).append(n)
        return p


def proj_tokens(proj):
    out = []
    for e in proj or []:
        k = e["k"]
        if k == "deref":
            out.append("*")
        elif k == "field":
            out.append(".%d" % e["i"])
        elif k == "index":
            out.append("[_%d]" % e["l"])
        elif k == "cindex":
            out.append("[c%s%d]" % ("-" if e["from_end"] else "", e["off"]))
        elif k == "subslice":
            out.append("[s%d..%s%d]" % (e["from"], "-" if e["from_end"] else "", e["to"]))
        elif k == "downcast":
            out.append("as%d" % e["vi"])
        else:
            out.append("<%s>" % k)
    return tuple(out)


_CACHE = {}


def pathsens(body, program, **kw):
    key = (id(body), tuple(sorted(kw.items())) if all(not callable(v) for v in kw.values()) else None)
    if key[1] is not None and key in _CACHE:
        return _CACHE[key]
    ps = PathSens(body, program, **kw)
    if key[1] is not None:
        _CACHE[key] = ps
    return ps
