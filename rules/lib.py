"""Shared analyses: call graph (A1), effect summaries (A5), small MIR query helpers."""
import re

from facts import callee_name, place_str, op_str
import cfg

LOCAL_CRATES = ("llfree", "llfree_eval", "replay")

# ---------------------------------------------------------------------------------------
# type helpers
# ---------------------------------------------------------------------------------------

METADATA_HEADS = {"u8", "Atom", "Bitfield", "Local", "Frame", "Meta", "HugeEntry", "Tree",
                  "LocalTree", "Align", "AtomicUsize", "Atomic"}


def ty_head(ty):
    """Last path segment of the outermost type constructor, looking through slices/arrays."""
    ty = ty.strip()
    while True:
        if ty.startswith("[") and ty.endswith("]"):
            inner = ty[1:-1]
            depth = 0
            cut = len(inner)
            for i, ch in enumerate(inner):
                if ch in "<([":
                    depth += 1
                elif ch in ">)]":
                    depth -= 1
                elif ch == ";" and depth == 0:
                    cut = i
                    break
            ty = inner[:cut].strip()
            continue
        break
    head = ty.split("<", 1)[0]
    return head.split("::")[-1].strip()


def mut_pointee(ty):
    ty = ty.strip()
    if ty.startswith("&mut "):
        return ty[5:]
    if ty.startswith("&") and " mut " in ty.split(" ", 2)[1:2] + [""]:
        pass
    m = re.match(r"^&'[a-z_0-9]+ mut (.*)$", ty)
    if m:
        return m.group(1)
    if ty.startswith("*mut "):
        return ty[5:]
    return None


# ---------------------------------------------------------------------------------------
# effect primitives (reviewed table)
# ---------------------------------------------------------------------------------------

ATOM_WRITE_METHODS = {"store", "swap", "compare_exchange", "compare_exchange_weak", "try_update",
                      "update", "fetch_min", "fetch_max", "fetch_add", "fetch_sub", "fetch_and",
                      "fetch_or", "fetch_xor", "fetch_nand"}

WRITE_PRIMS = set()
for _m in ATOM_WRITE_METHODS:
    WRITE_PRIMS.add("llfree::atomic::Atom::" + _m)
    WRITE_PRIMS.add("llfree::atomic::AtomicImpl::" + _m)
    WRITE_PRIMS.add("core::sync::atomic::Atomic::" + _m)
WRITE_PRIMS |= {
    "<slice as llfree::atomic::AtomicSlice>::non_atomic",
    "llfree::atomic::AtomicSlice::non_atomic",
    "core::ptr::write", "core::ptr::write_bytes", "core::ptr::write_volatile",
    "core::intrinsics::copy_nonoverlapping", "core::ptr::copy_nonoverlapping", "core::ptr::copy",
    "ptr_mut::write", "ptr_mut::write_bytes", "ptr_mut::write_volatile",
    "alloc::alloc::alloc_zeroed",
}

# external functions that receive `&mut`/`*mut` metadata but only derive views/pointers from it (reviewed)
EXT_MUT_VIEWS = {
    "slice::split_at_mut", "slice::split_last_mut", "slice::split_first_mut", "slice::as_mut_ptr", "slice::as_mut_ptr_range",
    "slice::iter_mut", "slice::chunks_mut", "slice::len", "slice::is_empty", "slice::as_ptr", "slice::get_mut", "slice::first_mut",
    "slice::last_mut", "ptr_mut::cast", "ptr_mut::add", "ptr_mut::sub", "ptr_mut::offset", "ptr_mut::cast_const", "ptr_mut::is_null",
    "ptr_mut::align_offset", "ptr_mut::as_mut", "ptr_mut::as_ref", "core::slice::raw::from_raw_parts_mut", "core::slice::raw::from_raw_parts",
    "<array as core::ops::index::IndexMut>::index_mut", "<slice as core::ops::index::IndexMut>::index_mut",
    "core::ops::deref::DerefMut::deref_mut", "<llfree::util::Align as core::ops::deref::DerefMut>::deref_mut",
    "core::iter::traits::iterator::Iterator::enumerate", "core::iter::traits::iterator::Iterator::zip",
    "core::iter::traits::iterator::Iterator::map", "core::iter::traits::iterator::Iterator::rev",
    "core::mem::size_of_val", "core::mem::align_of_val", "core::ptr::null_mut", "core::ptr::slice_from_raw_parts_mut",
    "core::fmt::Formatter::debug_struct", "core::fmt::Formatter::write_fmt", "core::fmt::Formatter::write_str",
}
# external functions that write through a `&mut` argument (reviewed)
EXT_MUT_WRITERS = {
    "slice::fill", "slice::fill_with", "slice::copy_from_slice", "slice::clone_from_slice", "slice::swap", "slice::rotate_right",
    "slice::rotate_left", "slice::reverse", "slice::sort", "slice::sort_unstable", "slice::swap_with_slice", "slice::copy_within",
    "core::mem::swap", "core::mem::replace", "core::mem::take",
}

WAIT_PRIMS = {
    "llfree::util::spin_wait", "core::hint::spin_loop", "std::thread::yield_now",
    "std::thread::sleep", "std::thread::park", "core::sync::atomic::spin_loop_hint",
    "std::sync::Mutex::lock", "std::sync::RwLock::read", "std::sync::RwLock::write",
    "std::sync::Condvar::wait", "std::sync::Barrier::wait", "spin::mutex::Mutex::lock",
}

PANIC_CALLEES = {
    "core::panicking::panic", "core::panicking::panic_fmt", "core::panicking::assert_failed",
    "core::panicking::panic_nounwind", "core::panicking::panic_explicit",
    "core::panicking::unreachable_display", "core::panicking::panic_display",
    "core::panicking::panic_bounds_check", "core::option::unwrap_failed", "core::option::expect_failed",
    "core::result::unwrap_failed", "std::rt::begin_panic", "core::panicking::panic_const::panic_const_add_overflow",
}


def is_panic_callee(name):
    return name in PANIC_CALLEES or (name or "").startswith("core::panicking::")


# ---------------------------------------------------------------------------------------
# call graph
# ---------------------------------------------------------------------------------------

class CallGraph:
    def __init__(self, program):
        self.program = program
        self.bodies = {b.name: b for b in program.all_bodies()}
        self.edges = {}       # name -> set of callee names (local bodies or external names)
        self.sites = {}       # name -> list of (block, term, callee_name or None)
        self.closure_parent = {}
        # (caller, impl) edges that stand for a trait call on a generic type parameter: the callee is the
        # implementation for a strictly smaller type, so these edges cannot close an unbounded recursion
        self.generic_edges = set()
        self.trait_impls = {}  # trait method canonical (e.g. llfree::Alloc::put) -> [impl body names]
        for n, b in self.bodies.items():
            if b.impl_trait:
                m = n.rsplit("::", 1)[-1]
                self.trait_impls.setdefault(b.impl_trait + "::" + m, []).append(n)
        for n, b in self.bodies.items():
            out = set()
            sites = []
            for bi, t in b.calls():
                c = t["callee"]
                if c.get("indirect"):
                    out.add("<indirect>")
                    sites.append((bi, t, None))
                    continue
                cn = callee_name(c)
                sites.append((bi, t, cn))
                if cn in self.bodies:
                    out.add(cn)
                elif cn in self.trait_impls:
                    # unresolved call on a generic receiver: every impl in the program
                    for impl in self.trait_impls[cn]:
                        out.add(impl)
                        self.generic_edges.add((n, impl))
                    out.add(cn)
                else:
                    out.add(cn)
                # closures / fn items passed as generic args are (conservatively) called
                for a in (c.get("res_args") or c.get("args") or []):
                    if isinstance(a, dict):
                        tgt = a.get("closure") or a.get("fndef")
                        if tgt:
                            out.add(tgt)
            # closures created here
            for bi, si, s in b.stmts():
                if s["k"] == "assign" and s["rv"]["k"] == "aggregate" and s["rv"]["kind"]["k"] == "closure":
                    out.add(s["rv"]["kind"]["def"])
                    self.closure_parent[s["rv"]["kind"]["def"]] = n
                # fn items used as values (reified)
                if s["k"] == "assign":
                    for o in _operands_of_rv(s["rv"]):
                        if o["k"] == "const" and "fndef" in o:
                            out.add(o["fndef"])
            self.edges[n] = out
            self.sites[n] = sites

    def reachable(self, roots):
        seen = set()
        work = list(roots)
        while work:
            n = work.pop()
            if n in seen:
                continue
            seen.add(n)
            for m in self.edges.get(n, ()):
                if m not in seen:
                    work.append(m)
        return seen

    def callers_of(self, name):
        return [n for n, e in self.edges.items() if name in e]

    def call_sites_of(self, name):
        out = []
        for n, sites in self.sites.items():
            for bi, t, cn in sites:
                if cn == name:
                    out.append((self.bodies[n], bi, t))
        return out


def _operands_of_rv(rv):
    k = rv["k"]
    if k in ("use", "cast", "repeat"):
        return [rv["op"]]
    if k == "binop":
        return [rv["a"], rv["b"]]
    if k == "unop":
        return [rv["a"]]
    if k == "aggregate":
        return list(rv["ops"])
    return []


def operands_of_rv(rv):
    return _operands_of_rv(rv)


# ---------------------------------------------------------------------------------------
# effects
# ---------------------------------------------------------------------------------------

class Effects:
    """may-write summaries (A5). A body *directly* writes if it calls a write primitive,
    assigns through a pointer whose pointee is a metadata type, or hands a `&mut`/`*mut`
    to metadata to an external function."""

    def __init__(self, cg):
        self.cg = cg
        self.direct = {}   # name -> list of reasons
        for n, b in cg.bodies.items():
            self.direct[n] = self._direct(b)
        self._memo = {}

    def _direct(self, b):
        reasons = []
        for bi, t in b.calls():
            c = t["callee"]
            if c.get("indirect"):
                continue
            cn = callee_name(c)
            if cn in WRITE_PRIMS or c["def"] in WRITE_PRIMS:
                reasons.append(("prim", cn, bi))
                continue
            krate = c.get("res_krate") or c.get("krate")
            if krate not in LOCAL_CRATES and cn not in self.cg.bodies:
                for a in t["args"]:
                    if a["k"] in ("copy", "move"):
                        ty = a["place"].get("ty") or b.local_ty(a["place"]["l"])
                        mp = mut_pointee(ty)
                        if mp is not None and ty_head(mp) in METADATA_HEADS:
                            if cn.endswith("::next") or cn.endswith("::into_iter") or cn in EXT_MUT_VIEWS:
                                continue
                            reasons.append(("extmut" if cn in EXT_MUT_WRITERS else "extmut-unclassified", cn, bi))
                            break
        for bi, si, s in b.stmts():
            if s["k"] != "assign":
                continue
            p = s["place"]
            proj = p.get("p") or []
            if any(e["k"] == "deref" for e in proj):
                ty = p.get("ty") or ""
                if ty_head(ty) in METADATA_HEADS and ty_head(ty) not in ("Tree", "LocalTree", "HugeEntry"):
                    reasons.append(("deref-assign", place_str(p) + ": " + ty, bi))
        return reasons

    def may_write(self, name):
        if name in self._memo:
            return self._memo[name]
        reach = self.cg.reachable([name])
        res = []
        for m in reach:
            if m in self.direct and self.direct[m]:
                res.append((m, self.direct[m][0]))
            elif m in WRITE_PRIMS:
                res.append((m, ("prim", m, None)))
        self._memo[name] = res
        return res

    def call_may_write(self, body, t):
        c = t["callee"]
        if c.get("indirect"):
            return []
        cn = callee_name(c)
        if cn in WRITE_PRIMS or c["def"] in WRITE_PRIMS:
            return [(cn, ("prim", cn, None))]
        out = []
        targets = [cn]
        if cn not in self.cg.bodies and cn in self.cg.trait_impls:
            targets = self.cg.trait_impls[cn]
        for tg in targets:
            out += self.may_write(tg)
        for a in (c.get("res_args") or c.get("args") or []):
            if isinstance(a, dict):
                tg = a.get("closure") or a.get("fndef")
                if tg:
                    out += self.may_write(tg)
        if not out:
            krate = c.get("res_krate") or c.get("krate")
            if krate not in LOCAL_CRATES and cn not in self.cg.bodies:
                for a in t["args"]:
                    if a["k"] in ("copy", "move"):
                        ty = a["place"].get("ty") or body.local_ty(a["place"]["l"])
                        mp = mut_pointee(ty)
                        if mp is not None and ty_head(mp) in METADATA_HEADS and not cn.endswith(("::next", "::into_iter")) \
                                and cn not in EXT_MUT_VIEWS:
                            out.append((cn, ("extmut" if cn in EXT_MUT_WRITERS else "extmut-unclassified", cn, None)))
                            break
        return out


# ---------------------------------------------------------------------------------------
# small helpers
# ---------------------------------------------------------------------------------------

def find_calls(body, *names):
    """[(block, term)] of calls whose resolved or declared callee is in names."""
    return list(body.calls_to(*names))


def single_call(body, name):
    c = find_calls(body, name)
    if len(c) != 1:
        return None
    return c[0]


def span_of(t):
    return t.get("span")


def ret_kind_of_aggregate(rv):
    """'Ok'/'Err'/'Some'/'None' when rv builds such a value."""
    if rv["k"] == "aggregate" and rv["kind"]["k"] == "adt":
        return rv["kind"]["variant"]
    return None


# ---------------------------------------------------------------------------------------
# control dependence helpers
# ---------------------------------------------------------------------------------------

def controlling_edges(body, block):
    """CFG edges (src, dst) that every entry->block path must take, ordered from the entry
    towards the block (by dominance depth of src). Only edges out of switch terminators."""
    dom = cfg.dominators(body)
    out = []
    for s in range(body.nblocks()):
        t = body.term(s)
        if t["k"] != "switch":
            continue
        if s not in dom[block] and s != block:
            continue
        for d in body.succ(s):
            if cfg.edge_dominates(body, (s, d), block):
                # and the block is reachable at all via that edge
                out.append((s, d))
    out.sort(key=lambda e: len(dom[e[0]]))
    return out


def switch_value_for_edge(body, src, dst):
    """The switch value(s) that select edge src->dst: list of ints and/or 'otherwise'."""
    t = body.term(src)
    vals = [v for v, tg in t["targets"] if tg == dst]
    if t["otherwise"] == dst:
        vals.append("otherwise")
    return vals


def bool_edge_polarity(body, src, dst):
    """For a switch on a bool: True if dst is taken when the discriminant is true."""
    vals = switch_value_for_edge(body, src, dst)
    t = body.term(src)
    listed = [v for v, _ in t["targets"]]
    if vals == [0]:
        return False
    if vals == [1]:
        return True
    if vals == ["otherwise"] and listed == [0]:
        return True
    if vals == ["otherwise"] and listed == [1]:
        return False
    return None


def assignments_to_return(body):
    """[(block, stmt_index, rvalue)] for whole assignments to _0, plus [(block, 'term', term)]
    for calls writing _0."""
    out = []
    for bi, si, s in body.stmts():
        if s["k"] == "assign" and s["place"]["l"] == 0 and not s["place"].get("p"):
            out.append((bi, si, s["rv"]))
    for bi, t in body.calls():
        if t["k"] == "call" and t["dest"]["l"] == 0 and not t["dest"].get("p"):
            out.append((bi, "term", t))
    return out


def inline_pure(prog, t, exclude=(), depth=2, crates=("llfree", "llfree_eval", "replay")):
    """Replaces calls to small local helper functions whose result is one straight-line expression of their parameters
    by that expression (helper extraction / inlining is behaviour preserving and must not change a verdict).
    Helpers with loops, several result sites or more than 8 blocks are left as calls."""
    import cfg as _cfg
    import terms as _T
    if not isinstance(t, tuple) or not t:
        return t
    if t[0] == "call" and t[1] not in exclude and depth > 0:
        cb = prog.body(t[1])
        if cb is not None and cb.crate.name in crates and cb.nblocks() <= 8 and not _cfg.natural_loops(cb):
            rets = assignments_to_return(cb)
            if len(rets) == 1:
                ctm = _T.Terms(cb, prog)
                bi, si, rv = rets[0]
                r = ctm.call_term(bi) if si == "term" else ctm.rvalue(rv)
                if not any(x[0] == "l" for x in _T.walk(r)):
                    for i in range(1, cb.arg_count + 1):
                        if i - 1 < len(t[2]):
                            r = _T.subst(r, ("p", i, cb.local_name(i) or "_%d" % i), t[2][i - 1])
                    return inline_pure(prog, r, exclude, depth - 1, crates)
    return tuple(inline_pure(prog, x, exclude, depth, crates) if isinstance(x, tuple) and x and isinstance(x[0], str)
                 else (tuple(inline_pure(prog, y, exclude, depth, crates) if isinstance(y, tuple) else y for y in x) if isinstance(x, tuple) else x)
                 for x in t)


def resolve_upvars(prog, b, t):
    import terms as _T
    """For a closure body: replaces ('up', name[, field path]) by the term captured in the defining function."""
    if b.kind != "closure":
        return t
    parent = prog.body(b.name.rsplit("::{closure#", 1)[0])
    if parent is None:
        return t
    ptm = _T.Terms(parent, prog)
    caps = None
    for bi, si, s in parent.stmts():
        if s["k"] == "assign" and s["rv"]["k"] == "aggregate" and s["rv"]["kind"]["k"] == "closure" and s["rv"]["kind"]["def"] == b.name:
            caps = [ptm.operand(o) for o in s["rv"]["ops"]]
    if caps is None:
        return t
    names = [u["name"] for u in b.j.get("upvars", [])]
    table = {}
    for n, cpt in zip(names, caps):
        table[_T.canon(_T._upvar_term(n))] = resolve_upvars(prog, parent, _T.strip_refs(cpt))

    def go(x):
        if not isinstance(x, tuple) or not x:
            return x
        if isinstance(x[0], str):
            cx = _T.canon(x)
            if cx in table:
                return table[cx]
        return tuple(go(y) if isinstance(y, tuple) else y for y in x)
    return go(t)


def option_filter_ok(b, prog, site, opt_param, is_own):
    """Path-sensitive form of `opt.is_none_or(|k| k == OWN)`: in every state reaching block `site`, the Option parameter
    `opt_param` is None, or it is Some(k) and a comparison `k == OWN` (is_own(canonical term) decides what OWN is) is known
    to have been true. Accepts match / if-let / let-else spellings of the filter."""
    import terms as _T
    from pathsens import PathSens as _PS
    pl = [l for l in range(1, b.arg_count + 1) if b.local_name(l) == opt_param]
    if not pl:
        return False
    tm = _T.Terms(b, prog)
    eqs = []
    payload = ("f", ("as", ("p", opt_param), "Some"), 0)
    for bi, t in b.calls():
        cn = callee_name(t["callee"]) or ""
        if cn.endswith(("PartialEq>::eq", "PartialEq::eq")) and len(t["args"]) == 2:
            a = [_T.canon(_T.strip_refs(tm.operand(x))) for x in t["args"]]
            if (a[0] == payload and is_own(a[1])) or (a[1] == payload and is_own(a[0])):
                eqs.append(bi)
    ps = _PS(b, prog, track=lambda n: bool(n) and n.endswith(("PartialEq>::eq", "PartialEq::eq")))
    sts = ps.states_at(site)
    if not sts:
        return False
    for _, env in sts:
        d = env.get(("d", pl[0], ()))
        if d == 0:
            continue
        if d == 1 and any(env.get(("c", e)) == 1 for e in eqs):
            continue
        return False
    return True


def normalize_cmp(t):
    """For a comparison term returns (lhs, rel, rhs) with rel in {'le','lt','eq','ne'}
    meaning lhs rel rhs, or None."""
    if t[0] != "bin":
        return None
    op, a, b = t[1], t[2], t[3]
    if op == "Le":
        return (a, "le", b)
    if op == "Lt":
        return (a, "lt", b)
    if op == "Ge":
        return (b, "le", a)
    if op == "Gt":
        return (b, "lt", a)
    if op == "Eq":
        return (a, "eq", b)
    if op == "Ne":
        return (a, "ne", b)
    return None


def negate_rel(c):
    lhs, rel, rhs = c
    if rel == "le":
        return (rhs, "lt", lhs)
    if rel == "lt":
        return (rhs, "le", lhs)
    if rel == "eq":
        return (lhs, "ne", rhs)
    return (lhs, "eq", rhs)


def analyses(program):
    """(CallGraph, Effects) of a program, cached on the program object."""
    if not hasattr(program, "_cg"):
        program._cg = CallGraph(program)
        program._eff = Effects(program._cg)
    return program._cg, program._eff


def need_body(program, name):
    from framework import AnchorMissing
    b = program.body(name)
    if b is None:
        raise AnchorMissing("function %s" % name)
    return b


def local_call(t):
    c = t["callee"]
    if c.get("indirect"):
        return False
    return (c.get("res_krate") or c.get("krate")) in LOCAL_CRATES


# ---------------------------------------------------------------------------------------
# which llfree::Error variants can a function's Err results carry?
# ---------------------------------------------------------------------------------------

def error_domains(program):
    """name -> set of llfree::Error discriminants, for local functions returning Result<_, Error>
    (or Result<_, (Error, ..)>). Fixpoint over direct delegation (`return callee(..)`, `?`,
    `r => return r`, `.map(..)`)."""
    import terms as T
    if hasattr(program, "_errdom"):
        return program._errdom
    adt = None
    for c in program.crates.values():
        if "llfree::Error" in c.adts:
            adt = c.adts["llfree::Error"]
    if adt is None:
        program._errdom = {}
        return {}
    discr = {v["name"]: v["discr"] for v in adt["variants"]}
    alld = set(discr.values())
    bodies = {b.name: b for b in program.all_bodies()}
    cand = {n: b for n, b in bodies.items() if b.local_ty(0).startswith("core::result::Result<") and "Error" in b.local_ty(0)}
    direct = {}
    deps = {}
    for n, b in cand.items():
        tm = T.Terms(b, program)
        dset = set()
        dep = set()
        unknown = False
        # every value that can end up as the Err payload: scan all Error aggregates and calls returning Result<.., Error>
        for bi, si, s in b.stmts():
            if s["k"] == "assign" and s["rv"]["k"] == "aggregate" and s["rv"]["kind"]["k"] == "adt" and s["rv"]["kind"]["adt"] == "llfree::Error":
                dset.add(s["rv"]["kind"]["discr"])
            if s["k"] == "assign" and s["rv"]["k"] == "use" and s["rv"]["op"]["k"] == "const" and s["rv"]["op"].get("adt") == "llfree::Error":
                v = s["rv"]["op"].get("val")
                if isinstance(v, int):
                    dset.add(v)
                else:
                    unknown = True
        for bi, t in b.calls():
            c = t["callee"]
            dty = b.local_ty(t["dest"]["l"]) if not t["dest"].get("p") else (t["dest"].get("ty") or "")
            if c.get("indirect"):
                if "Error" in dty:
                    unknown = True
                continue
            cn = callee_name(c)
            if dty.startswith("core::result::Result<") and "Error" in dty:
                if cn in cand:
                    dep.add(cn)
                elif cn in ("core::result::Result::map", "core::result::Result::map_err", "core::option::Option::ok_or",
                            "core::option::Option::transpose", "core::result::Result::and_then",
                            "<core::result::Result as core::ops::try_trait::FromResidual>::from_residual"):
                    pass  # payload comes from values already accounted for
                elif cn in program_trait_methods(program):
                    for impl in program_trait_methods(program)[cn]:
                        dep.add(impl)
                else:
                    unknown = True
        direct[n] = alld if unknown else dset
        deps[n] = dep
    dom = {n: set(direct[n]) for n in cand}
    changed = True
    while changed:
        changed = False
        for n in cand:
            for d in deps[n]:
                if d in dom and not dom[d] <= dom[n]:
                    dom[n] |= dom[d]
                    changed = True
    program._errdom = dom
    return dom


def program_trait_methods(program):
    cg, _ = analyses(program)
    return cg.trait_impls


# ---------------------------------------------------------------------------------------------------------------------
# Index normal form: two index expressions that are arithmetically identical (conversion helper inlined or not, `/ c` or `>> k`,
# `x / a / b` or `x / (a*b)`, `XId(a.0 + b.0)` or `a + b`, products distributed or not) get the same normal form, so the rules that
# compare selectors / returned frames do not depend on how the index arithmetic is spelled.
_NEWTYPE_ADTS = ("adt:llfree::FrameId::FrameId", "adt:llfree::lower::HugeId::HugeId", "adt:llfree::trees::TreeId::TreeId",
                 "adt:llfree::bitfield::RowId::RowId")


def lin_key(l):
    """hashable canonical rendering of a linear form (as used for the arguments of Div atoms in index normal forms)"""
    if l is None:
        return None
    return ("lin", tuple(sorted(((repr(k), k, v) for k, v in l[0].items()), key=lambda x: x[0])), l[1])


def index_nf(prog, t, depth=8, want_lin=False):
    import terms as _T
    t = inline_pure(prog, t, depth=depth)
    t = _T.canon(t)

    def lin_key(l):
        if l is None:
            return None
        return ("lin", tuple(sorted(((repr(k), k, v) for k, v in l[0].items()), key=lambda x: x[0])), l[1])

    def lin_term(l):
        """linear form -> term (so that it can be nested and re-linearised)"""
        acc = ("c", l[1])
        for kk, v in sorted(l[0].items(), key=lambda z: repr(z[0])):
            acc = ("bin", "Add", acc, ("bin", "Mul", kk, ("c", v)))
        return acc

    def div_lin(la, c):
        """floor(la / c) as a linear form over Div atoms: multiples of c are taken out, a common factor of the rest and c is
        cancelled, (y / a) / c becomes y / (a*c)"""
        from math import gcd
        whole = {kk: v // c for kk, v in la[0].items() if v % c == 0}
        rest = {kk: v for kk, v in la[0].items() if v % c != 0}
        const = la[1]
        wconst, rconst = (const // c, 0) if not rest else (0, const)
        if not rest:
            rconst = const % c
            wconst = const // c
            if rconst == 0:
                return (whole, wconst)
        g = c
        for v in rest.values():
            g = gcd(g, v)
        g = gcd(g, rconst) if rconst else g
        rest = {kk: v // g for kk, v in rest.items()}
        rconst //= g
        cc = c // g
        if cc == 1:
            out = dict(whole)
            for kk, v in rest.items():
                out[kk] = out.get(kk, 0) + v
            return (out, wconst + rconst)
        if len(rest) == 1 and rconst == 0:
            (kk, v), = rest.items()
            if v == 1 and kk[0] == "bin" and kk[1] == "Div" and kk[3][0] == "c":
                atom = ("bin", "Div", kk[2], ("c", kk[3][1] * cc))
                out = dict(whole)
                out[atom] = out.get(atom, 0) + 1
                return (out, wconst)
        atom = ("bin", "Div", lin_key((rest, rconst)), ("c", cc))
        out = dict(whole)
        out[atom] = out.get(atom, 0) + 1
        return (out, wconst)

    def rw(x):
        """-> rewritten term (newtype wrappers erased)"""
        if not isinstance(x, tuple) or not x or not isinstance(x[0], str):
            return x
        k = x[0]
        if k == "agg" and x[1] in _NEWTYPE_ADTS and len(x[2]) == 1:
            return ("nt", rw(x[2][0]))
        if k == "f" and x[2] == 0:
            inner = rw(x[1])
            if inner[0] == "nt":
                return inner[1]
            return ("f", inner, 0)
        if k == "bin":
            op, a, b = x[1], rw(x[2]), rw(x[3])
            a = a[1] if a[0] == "nt" else a
            b = b[1] if b[0] == "nt" else b
            if op == "Shr" and b[0] == "c" and isinstance(b[1], int):
                op, b = "Div", ("c", 1 << b[1])
            if op == "Shl" and b[0] == "c" and isinstance(b[1], int):
                op, b = "Mul", ("c", 1 << b[1])
            if op in ("Div", "Rem") and b[0] == "c" and isinstance(b[1], int) and b[1] > 0:
                c = b[1]
                la = _T.linear(a)
                if la is not None:
                    if op == "Rem":
                        # y % c  =  y - c * (y / c)
                        d = div_lin(la, c)
                        return lin_term(_T._lin_add(la, _T._lin_scale(d, c), -1))
                    return lin_term(div_lin(la, c))
                return ("bin", op, a, b)
            return ("bin", op, a, b)
        if k == "call":
            return ("call", x[1], tuple(rw(a) for a in x[2]))
        return tuple(rw(y) if isinstance(y, tuple) and y and isinstance(y[0], str) else
                     (tuple(rw(z) for z in y) if isinstance(y, tuple) else y) for y in x)

    r = rw(t)
    if r[0] == "nt":
        r = r[1]
    l = _T.linear(r)
    if want_lin:
        return l
    return lin_key(l) if l is not None else r


def index_lin(prog, t):
    """index normal form as a linear form (dict atom -> coefficient, constant), or None"""
    return index_nf(prog, t, want_lin=True)


def index_eq(prog, a, b):
    return index_nf(prog, a) == index_nf(prog, b)
