"""Dimension analysis for the index newtypes of llfree (FrameId, RowId, HugeId, TreeId).

Every number that is wrapped into one of the newtypes is given a unit (F frames, R rows, H huge frames, T trees) from the
newtypes it was taken out of (`x.0`), the conversion helpers and the named ratio constants (HUGE_FRAMES = F per H, TREE_HUGE = H per
T, ...). `XId(e)` with a *known* unit of `e` other than X is a unit error (a tree number used as a frame number, ...).
Unknown units are never an error."""
import terms as T
from facts import callee_name

NEWTYPES = {"FrameId": "F", "HugeId": "H", "TreeId": "T", "RowId": "R"}
ADT = {"adt:llfree::FrameId::FrameId": "F", "adt:llfree::lower::HugeId::HugeId": "H", "adt:llfree::trees::TreeId::TreeId": "T",
       "adt:llfree::bitfield::RowId::RowId": "R"}
RATIO_CONSTS = {
    "llfree::HUGE_FRAMES": ("F", "H"), "llfree::bitfield::Bitfield::LEN": ("F", "H"), "llfree::TREE_FRAMES": ("F", "T"),
    "llfree::TREE_HUGE": ("H", "T"), "llfree::BITFIELD_ROW": ("F", "R"), "llfree::bitfield::Bitfield::ROW_BITS": ("F", "R"),
    "llfree::bitfield::ROWS": ("R", "H"),
}
CONV = {"as_frame": "F", "as_huge": "H", "as_tree": "T", "as_row": "R"}
NUM_CALLS = {"llfree::lower::HugeId::child_idx": "H", "llfree::bitfield::RowId::huge_idx": "R", "llfree::lower::Lower::frames": "F",
             "<llfree::llfree::LLFree as llfree::Alloc>::frames": "F", "llfree::Alloc::frames": "F", "llfree::trees::Trees::len": "T"}
ADDITIVE = ("saturating_sub", "wrapping_sub", "saturating_add", "wrapping_add", "checked_sub", "checked_add", "::min", "::max",
            "unchecked_sub", "unchecked_add")


def ty_unit(ty):
    if not ty:
        return None
    t = ty.replace("&", "").replace("mut ", "").strip()
    t = t.rsplit("::", 1)[-1]
    return NEWTYPES.get(t)


class Units:
    def __init__(self, prog, body):
        self.prog, self.body = prog, body
        consts = prog.crate("llfree").consts
        self.by_val = {}
        for n, r in RATIO_CONSTS.items():
            v = consts.get(n)
            if v is None:
                continue
            v = int(v)
            self.by_val.setdefault(v, set()).add(r)

    def ratio(self, t):
        """('c', v, cname) -> (num, den) | 'amb' | None"""
        if t[0] == "cast":
            return self.ratio(t[1])
        if t[0] != "c" or not isinstance(t[1], int):
            return None
        cn = t[2] if len(t) > 2 else None
        if cn in RATIO_CONSTS:
            return RATIO_CONSTS[cn]
        rs = self.by_val.get(t[1])
        if not rs:
            return None
        if cn:
            return None      # a named constant that is not one of the ratios
        return next(iter(rs)) if len(rs) == 1 else "amb"

    def newtype_of(self, x):
        """unit of a newtype-valued term"""
        b = self.body
        if x[0] in ("&", "*"):
            return self.newtype_of(x[1])
        if x[0] == "p":
            return ty_unit(b.local_ty(x[1]))
        if x[0] == "l":
            return ty_unit(b.local_ty(x[1]))
        if x[0] == "up":
            for u in b.j.get("upvars", []):
                if u["name"] == x[1] and len(x) <= 2:
                    return ty_unit(u.get("ty"))
            return None
        if x[0] == "call":
            n = x[1] or ""
            last = n.rsplit("::", 1)[-1]
            if last in CONV and ("llfree::" in n):
                return CONV[last]
            for nt, u in NEWTYPES.items():
                if n.startswith("<llfree::%s as core::ops::arith::" % nt) or n.startswith("<llfree::lower::%s as core::ops::arith::" % nt) \
                        or n.startswith("<llfree::trees::%s as core::ops::arith::" % nt) or n.startswith("<llfree::bitfield::%s as core::ops::arith::" % nt):
                    return u
            return None
        if x[0] == "agg" and x[1] in ADT:
            return ADT[x[1]]
        return None

    @staticmethod
    def join(a, b):
        if a == "!" or b == "!":
            return "!"
        if a == "?":
            return b
        if b == "?":
            return a
        return a if a == b else "!"

    def unit(self, t, depth=0):
        if depth > 40 or not isinstance(t, tuple) or not t:
            return "?"
        k = t[0]
        if k == "c":
            return "?"
        if k == "cast":
            return self.unit(t[1], depth + 1)
        if k == "f":
            if t[2] == 0:
                u = self.newtype_of(t[1])
                if u:
                    return u
            return "?"
        if k == "bin":
            op, a, b = t[1], t[2], t[3]
            if op.endswith("WithOverflow"):
                op = op[:-len("WithOverflow")]
            if op.endswith("Unchecked"):
                op = op[:-len("Unchecked")]
            if op in ("Add", "Sub"):
                return self.join(self.unit(a, depth + 1), self.unit(b, depth + 1))
            if op == "Mul":
                for x, c in ((a, b), (b, a)):
                    r = self.ratio(c)
                    if r == "amb":
                        return "?"
                    if r:
                        u = self.unit(x, depth + 1)
                        if u == "?":
                            return "?"
                        return r[0] if u == r[1] else "!"
                ua, ub = self.unit(a, depth + 1), self.unit(b, depth + 1)
                return ua if ub == "?" else (ub if ua == "?" else "?")
            if op == "Div":
                r = self.ratio(b)
                if r == "amb":
                    return "?"
                u = self.unit(a, depth + 1)
                if r:
                    if u == "?":
                        return "?"
                    return r[1] if u == r[0] else "!"
                return u if self.unit(b, depth + 1) == "?" else "?"
            if op == "Rem":
                return self.unit(a, depth + 1)
            return "?"
        if k == "call":
            n = t[1] or ""
            if n in NUM_CALLS:
                return NUM_CALLS[n]
            if n.endswith("align_down") or n.endswith("align_up") or n.endswith("next_multiple_of"):
                return self.unit(t[2][0], depth + 1) if t[2] else "?"
            if any(n.endswith(s) for s in ADDITIVE) and len(t[2]) >= 2:
                return self.join(self.unit(t[2][0], depth + 1), self.unit(t[2][1], depth + 1))
            if n.endswith("div_ceil") and len(t[2]) == 2:
                return self.unit(("bin", "Div", t[2][0], t[2][1]), depth + 1)
            if n.endswith("cast_unsigned") or n.endswith("cast_signed"):
                return self.unit(t[2][0], depth + 1)
            return "?"
        if k == "as" and t[2] == "Some":
            return self.unit(t[1], depth + 1)   # checked_sub(..)? / Option payload of an additive helper
        return "?"


def constructions(prog):
    """yields (body, bi, si, adt_unit, operand term, unit, span) for every XId(e) in the llfree crate"""
    crate = prog.crate("llfree")
    for name, b in sorted(crate.bodies.items()):
        tm = T.Terms(b, prog)
        un = Units(prog, b)
        for bi, si, s in b.stmts():
            if s["k"] != "assign" or s["rv"]["k"] != "aggregate":
                continue
            kd = s["rv"]["kind"]
            if kd["k"] != "adt":
                continue
            tag = "adt:%s::%s" % (kd["adt"], kd["variant"])
            if tag not in ADT or len(s["rv"]["ops"]) != 1:
                continue
            e = tm.operand(s["rv"]["ops"][0])
            yield b, bi, si, ADT[tag], e, un.unit(e), s.get("span")
