"""A3: symbolic terms by backward substitution over single-definition MIR temporaries.

Value numbering, not solving: two terms are equal only syntactically after
normalisation. 'Cannot tell' is an explicit outcome (opaque locals)."""
from facts import callee_name, place_str

MAX_DEPTH = 60


class Terms:
    def __init__(self, body, program=None):
        self.body = body
        self.program = program
        self._memo = {}
        self._single = {}
        b = body
        for l in range(len(b.locals)):
            if 1 <= l <= b.arg_count:
                continue
            wd = b.whole_defs(l)
            alld = b.defs().get(l, [])
            if len(wd) == 1 and len(alld) == 1:
                self._single[l] = wd[0]
        self._upvars = {}
        self._upterms = {}
        for u in b.j.get("upvars", []):
            self._upvars[place_str(u["place"])] = u["name"]
        for u in b.j.get("upvars", []):
            # structural term of the captured place (closure env is argument 1)
            t = ("p", u["place"]["l"], b.local_name(u["place"]["l"]) or "_%d" % u["place"]["l"])
            for e in u["place"].get("p") or []:
                if e["k"] == "deref":
                    t = ("*", t)
                elif e["k"] == "field":
                    t = ("f", t, e["i"], e.get("n"))
            self._upterms[t] = u["name"]

    # ------------------------------------------------------------------
    def local(self, l, depth=0):
        if l in self._memo:
            return self._memo[l]
        b = self.body
        if 1 <= l <= b.arg_count:
            t = ("p", l, b.local_name(l) or "_%d" % l)
        elif l in self._single and depth < MAX_DEPTH:
            self._memo[l] = ("l", l)  # cycle guard
            bi, si = self._single[l]
            if si == "term":
                t = self.call_term(bi, depth + 1)
            else:
                s = b.blocks[bi]["stmts"][si]
                t = self.rvalue(s["rv"], depth + 1)
        else:
            t = ("l", l)
        self._memo[l] = t
        return t

    def call_term(self, bi, depth=0):
        t = self.body.blocks[bi]["term"]
        c = t["callee"]
        if c.get("indirect"):
            name = "<indirect>"
            fn = self.operand(c["op"], depth + 1)
            return ("icall", fn, tuple(self.operand(a, depth + 1) for a in t["args"]), bi)
        name = callee_name(c)
        return ("call", name, tuple(self.operand(a, depth + 1) for a in t["args"]), bi)

    def place(self, p, depth=0):
        s = place_str(p)
        if s in self._upvars:
            return _upvar_term(self._upvars[s])
        t = self.local(p["l"], depth)
        proj = p.get("p") or []
        cur = {"l": p["l"], "p": []}
        for e in proj:
            cur["p"].append(e)
            cs = place_str(cur)
            if cs in self._upvars:
                t = _upvar_term(self._upvars[cs])
                continue
            k = e["k"]
            if k == "deref":
                if t[0] == "&":
                    t = t[1]
                else:
                    t = ("*", t)
            elif k == "field":
                # AddWithOverflow etc: (value, overflowed)
                if t[0] == "bin" and t[1].endswith("WithOverflow"):
                    if e["i"] == 0:
                        t = ("bin", t[1][:-len("WithOverflow")], t[2], t[3])
                    else:
                        t = ("ovf", t)
                elif t[0] == "agg" and e["i"] < len(t[2]) and t[1] in ("tuple",) :
                    t = t[2][e["i"]]
                elif t[0] == "agg" and t[1].startswith("adt:") and e["i"] < len(t[2]) and not t[1].endswith("|enum"):
                    t = t[2][e["i"]]
                else:
                    t = ("f", t, e["i"], e.get("n"))
            elif k == "index":
                t = ("idx", t, self.local(e["l"], depth + 1))
            elif k == "cindex":
                t = ("idx", t, ("c", e["off"], None))
            elif k == "downcast":
                t = ("as", t, e.get("n") or e["vi"])
            elif k == "subslice":
                t = ("subslice", t, e["from"], e["to"], e["from_end"])
            else:
                t = ("proj", t, k)
            if t in self._upterms:
                t = _upvar_term(self._upterms[t])
        return t

    def operand(self, o, depth=0):
        k = o["k"]
        if k in ("copy", "move"):
            return self.place(o["place"], depth)
        if k == "const":
            if "val" in o and isinstance(o["val"], (int, str)):
                v = o["val"]
                if isinstance(v, str):
                    v = int(v)
                return ("c", v, o.get("cname"))
            if "deref_val" in o:
                return ("&", ("c", o["deref_val"], o.get("deref_adt")))
            if "fndef" in o:
                return ("fn", o["fndef"])
            if "str" in o:
                return ("str", o["str"])
            return ("k", o.get("ty"), o.get("cname"))
        return ("k", k, None)

    def rvalue(self, rv, depth=0):
        k = rv["k"]
        if k == "use":
            return self.operand(rv["op"], depth)
        if k in ("ref", "rawptr"):
            t = self.place(rv["place"], depth)
            if t[0] == "*":
                return t[1]  # reborrow
            return ("&", t)
        if k == "cast":
            inner = self.operand(rv["op"], depth)
            if rv["kind"] in ("PtrToPtr", "Transmute", "IntToInt") or rv["kind"].startswith("PointerCoercion"):
                return ("cast", inner, rv["ty"], rv["kind"])
            return ("cast", inner, rv["ty"], rv["kind"])
        if k == "binop":
            return ("bin", rv["op"], self.operand(rv["a"], depth), self.operand(rv["b"], depth))
        if k == "unop":
            return ("un", rv["op"], self.operand(rv["a"], depth))
        if k == "discr":
            return ("discr", self.place(rv["place"], depth))
        if k == "aggregate":
            kd = rv["kind"]
            ops = tuple(self.operand(o, depth) for o in rv["ops"])
            if kd["k"] == "adt":
                tag = "adt:%s::%s" % (kd["adt"], kd["variant"])
                if kd.get("discr") is not None:
                    tag += "|enum"
                return ("agg", tag, ops)
            if kd["k"] == "closure":
                return ("agg", "closure:" + kd["def"], ops)
            return ("agg", kd["k"], ops)
        if k == "repeat":
            return ("repeat", self.operand(rv["op"], depth), rv["n"])
        return ("k", k, None)


def _upvar_term(name):
    """Precise closure captures are named `var__field__..`: present them as field paths."""
    parts = name.split("__")
    t = ("up", parts[0])
    for f in parts[1:]:
        t = ("f", t, None, f)
    return t


# ---------------------------------------------------------------------------------------
# queries over terms
# ---------------------------------------------------------------------------------------

def walk(t):
    """Pre-order iteration over sub-terms."""
    stack = [t]
    while stack:
        x = stack.pop()
        if not isinstance(x, tuple):
            continue
        yield x
        for y in x[1:]:
            if isinstance(y, tuple):
                if y and isinstance(y[0], str):
                    stack.append(y)
                else:
                    for z in y:
                        if isinstance(z, tuple):
                            stack.append(z)


def subst(t, old, new):
    """t with every occurrence of sub-term `old` replaced by `new`."""
    if t == old:
        return new
    if not isinstance(t, tuple):
        return t
    return tuple(subst(x, old, new) if isinstance(x, tuple) else x for x in t)


def alternatives(tm, t, limit=16, _seen=frozenset()):
    """Expands opaque multi-definition locals ("l", n) in t into one term per whole definition (a finite
    case split over the reaching definitions, no path reasoning). Locals with partial definitions stay opaque."""
    b = tm.body
    for x in walk(t):
        if x[0] != "l" or x[1] in _seen:
            continue
        wd = b.whole_defs(x[1])
        if not wd or len(wd) != len(b.defs().get(x[1], [])):
            continue
        out = []
        for bi, si in wd:
            if si == "term":
                d = tm.call_term(bi)
            else:
                d = tm.rvalue(b.blocks[bi]["stmts"][si]["rv"])
            for a in alternatives(tm, subst(t, x, d), limit, _seen | {x[1]}):
                out.append(a)
                if len(out) >= limit:
                    return out
        return out
    return [t]


def mentions_param(t, name):
    return any(x[0] == "p" and x[2] == name for x in walk(t))


def mentions_call(t, fname):
    return any(x[0] == "call" and x[1] == fname for x in walk(t))


def calls_in(t):
    return [x for x in walk(t) if x[0] == "call"]


def mentions_field(t, fname):
    return any(x[0] == "f" and x[3] == fname for x in walk(t))


def mentions_upvar(t, name):
    return any(x[0] == "up" and x[1] == name for x in walk(t))


def const_val(t):
    if t[0] == "c":
        return t[1]
    if t[0] == "cast" and t[1][0] == "c":
        return t[1][1]
    return None


def strip_casts(t):
    while t[0] == "cast" and t[3] in ("IntToInt",):
        t = t[1]
    return t


def strip_refs(t):
    while t[0] in ("&", "*"):
        t = t[1]
    return t


def show(t, depth=0):
    if not isinstance(t, tuple):
        return str(t)
    if depth > 12:
        return "…"
    k = t[0]
    if k == "c":
        return (t[2].split("::")[-1] + "=" if t[2] else "") + str(t[1])
    if k == "p":
        return t[2]
    if k == "up":
        return "^" + t[1]
    if k == "l":
        return "_%d" % t[1]
    if k == "f":
        return "%s.%s" % (show(t[1], depth + 1), t[3] if t[3] is not None else t[2])
    if k == "*":
        return "*" + show(t[1], depth + 1)
    if k == "&":
        return "&" + show(t[1], depth + 1)
    if k == "idx":
        return "%s[%s]" % (show(t[1], depth + 1), show(t[2], depth + 1))
    if k == "as":
        return "(%s as %s)" % (show(t[1], depth + 1), t[2])
    if k == "bin":
        return "%s(%s, %s)" % (t[1], show(t[2], depth + 1), show(t[3], depth + 1))
    if k == "un":
        return "%s(%s)" % (t[1], show(t[2], depth + 1))
    if k == "cast":
        return "(%s as %s)" % (show(t[1], depth + 1), t[2])
    if k == "call":
        return "%s(%s)" % (t[1].split("::")[-1] if "::" in t[1] else t[1],
                           ", ".join(show(a, depth + 1) for a in t[2]))
    if k == "icall":
        return "(%s)(%s)" % (show(t[1], depth + 1), ", ".join(show(a, depth + 1) for a in t[2]))
    if k == "agg":
        return "%s{%s}" % (t[1].split("::")[-1], ", ".join(show(a, depth + 1) for a in t[2]))
    if k == "discr":
        return "discr(%s)" % show(t[1], depth + 1)
    if k == "fn":
        return "fn " + t[1]
    if k == "str":
        return repr(t[1])
    return "%s(..)" % k


# ---------------------------------------------------------------------------------------
# linear normal form:  sum a_i * atom_i + c   (atoms are terms)
# ---------------------------------------------------------------------------------------

def linear(t):
    """Returns (dict atom->coef, const) or None if not integer-linear in recognisable atoms."""
    t = strip_casts(t)
    k = t[0]
    if k == "c":
        return ({}, t[1])
    if k == "bin":
        op = t[1]
        if op in ("Add", "AddUnchecked", "AddWithOverflow"):
            a, b = linear(t[2]), linear(t[3])
            return _lin_add(a, b, 1)
        if op in ("Sub", "SubUnchecked", "SubWithOverflow"):
            a, b = linear(t[2]), linear(t[3])
            return _lin_add(a, b, -1)
        if op in ("Mul", "MulUnchecked", "MulWithOverflow"):
            a, b = linear(t[2]), linear(t[3])
            if a and not a[0]:
                return _lin_scale(b, a[1])
            if b and not b[0]:
                return _lin_scale(a, b[1])
        if op in ("Shl", "ShlUnchecked"):
            a, b = linear(t[2]), linear(t[3])
            if a and b and not a[0] and not b[0]:
                return ({}, a[1] << b[1])
            # 1 << x is the canonical 'frames of order x' atom
            if a and not a[0] and a[1] == 1:
                return ({("pow2", canon(t[3])): 1}, 0)
    if k == "call" and t[1] == "llfree::Request::frames":
        # Request::frames(&r) == 1 << r.order  (checked against the callee body by R-FRAMES-DEF)
        r = strip_refs(t[2][0])
        return ({("pow2", canon(("f", r, 0, "order"))): 1}, 0)
    return ({canon(t): 1}, 0)


def _lin_add(a, b, sign):
    if a is None or b is None:
        return None
    d = dict(a[0])
    for k, v in b[0].items():
        d[k] = d.get(k, 0) + sign * v
        if d[k] == 0:
            del d[k]
    return (d, a[1] + sign * b[1])


def _lin_scale(a, c):
    if a is None:
        return None
    return ({k: v * c for k, v in a[0].items() if v * c != 0}, a[1] * c)


def canon(t):
    """Canonical form used for atom comparison: strips refs/derefs/casts and call-site ids."""
    if not isinstance(t, tuple):
        return t
    k = t[0]
    if k in ("&", "*"):
        return canon(t[1])
    if k == "cast" and t[3] == "IntToInt":
        return canon(t[1])
    if k == "call":
        return ("call", t[1], tuple(canon(a) for a in t[2]))
    if k == "c":
        return ("c", t[1])
    if k == "p":
        return ("p", t[2]) if len(t) > 2 else t
    if k == "f" and len(t) == 3:      # already canonical
        return ("f", canon(t[1]), t[2])
    if k == "f":
        name = t[3] if t[3] is not None else t[2]
        if isinstance(name, str) and name.isdigit():
            name = int(name)
        return ("f", canon(t[1]), name)
    if k == "bin":
        a, b = canon(t[2]), canon(t[3])
        op = t[1].replace("WithOverflow", "").replace("Unchecked", "")
        if op in ("Add", "Mul", "BitAnd", "BitOr", "BitXor", "Eq", "Ne") and repr(b) < repr(a):
            a, b = b, a
        return ("bin", op, a, b)
    return tuple(canon(x) if isinstance(x, tuple) and x and isinstance(x[0], str) else
                 (tuple(canon(y) for y in x) if isinstance(x, tuple) else x) for x in t)


def lin_equal(a, b):
    la, lb = linear(a), linear(b)
    return la is not None and lb is not None and la == lb
