"""CFG utilities over a facts.Body: dominators, post-dominators, reachability, loops."""


def reachable_from(body, start, stop=None, skip_edges=None):
    """Blocks reachable from `start` (inclusive) without entering blocks in `stop`
    and without taking edges in skip_edges (set of (from, to))."""
    stop = stop or set()
    seen = set()
    work = [start]
    while work:
        b = work.pop()
        if b in seen or b in stop:
            continue
        seen.add(b)
        for s in body.succ(b):
            if skip_edges and (b, s) in skip_edges:
                continue
            if s not in seen:
                work.append(s)
    return seen


def entry_reachable(body):
    return reachable_from(body, 0)


def dominators(body):
    """Returns dom: list of sets; dom[b] = set of blocks dominating b (including b).
    Unreachable blocks get the empty set."""
    n = body.nblocks()
    reach = entry_reachable(body)
    order = _rpo(body, 0)
    allb = set(reach)
    dom = [set() for _ in range(n)]
    for b in reach:
        dom[b] = set(allb)
    dom[0] = {0}
    changed = True
    while changed:
        changed = False
        for b in order:
            if b == 0:
                continue
            preds = [p for p in body.pred(b) if p in reach]
            if not preds:
                continue
            new = set(dom[preds[0]])
            for p in preds[1:]:
                new &= dom[p]
            new.add(b)
            if new != dom[b]:
                dom[b] = new
                changed = True
    return dom


def _rpo(body, start):
    seen = set()
    out = []

    def dfs(b):
        stack = [(b, iter(body.succ(b)))]
        seen.add(b)
        while stack:
            node, it = stack[-1]
            adv = False
            for s in it:
                if s not in seen:
                    seen.add(s)
                    stack.append((s, iter(body.succ(s))))
                    adv = True
                    break
            if not adv:
                out.append(node)
                stack.pop()
    dfs(start)
    out.reverse()
    return out


def exits(body):
    """Blocks whose terminator is `return`."""
    return [i for i in range(body.nblocks()) if body.term(i)["k"] == "return"]


def diverging(body):
    """Blocks with no successors that are not returns (panics, unreachable)."""
    return [i for i in range(body.nblocks())
            if not body.succ(i) and body.term(i)["k"] != "return"]


def edge_dominates(body, edge, target, entry=0):
    """True iff every path from entry to `target` takes the CFG edge `edge`=(a,b).
    Vacuously true when target is unreachable."""
    r = reachable_from(body, entry, skip_edges={edge})
    return target not in r


def block_dominates(body, a, target, entry=0):
    if a == target:
        return True
    r = reachable_from(body, entry, stop={a})
    return target not in r


def back_edges(body):
    """Back edges (a,b) where b dominates a."""
    dom = dominators(body)
    out = []
    for a in entry_reachable(body):
        for b in body.succ(a):
            if b in dom[a]:
                out.append((a, b))
    return out


def natural_loops(body):
    """Returns list of (header, set(blocks)) merged per header."""
    loops = {}
    for a, h in back_edges(body):
        blocks = {h, a}
        work = [a]
        while work:
            x = work.pop()
            if x == h:
                continue
            for p in body.pred(x):
                if p not in blocks:
                    blocks.add(p)
                    work.append(p)
        loops.setdefault(h, set()).update(blocks)
    return sorted(loops.items())


def sccs(nodes, succ):
    """Tarjan SCCs over an arbitrary graph. `succ(n)` -> iterable. Returns list of lists."""
    index = {}
    low = {}
    onstack = set()
    stack = []
    out = []
    counter = [0]
    for root in nodes:
        if root in index:
            continue
        work = [(root, iter(succ(root)))]
        index[root] = low[root] = counter[0]
        counter[0] += 1
        stack.append(root)
        onstack.add(root)
        while work:
            v, it = work[-1]
            adv = False
            for w in it:
                if w not in index:
                    index[w] = low[w] = counter[0]
                    counter[0] += 1
                    stack.append(w)
                    onstack.add(w)
                    work.append((w, iter(succ(w))))
                    adv = True
                    break
                elif w in onstack:
                    low[v] = min(low[v], index[w])
            if adv:
                continue
            work.pop()
            if work:
                u = work[-1][0]
                low[u] = min(low[u], low[v])
            if low[v] == index[v]:
                comp = []
                while True:
                    w = stack.pop()
                    onstack.discard(w)
                    comp.append(w)
                    if w == v:
                        break
                out.append(comp)
    return out
