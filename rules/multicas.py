"""Shared analysis of the multi-word claims (a *sequence* of CASes with rollback):
AtomicSlice::compare_exchange_all, Bitfield::toggle (multi-row arm), Bitfield::set_first_zero_rows.

R-UNDO-RANGE: every path from the failure edge of the forward CAS to a return passes through a
rollback loop whose range is exactly the prefix this call acquired ([forward start, failing index),
reversed), on the same words, exchanging the forward CAS's (new, current)."""
import cfg
import terms as T
from facts import callee_name
from pathsens import PathSens

A = "llfree::atomic::Atom::"
CAS = {A + "compare_exchange", A + "compare_exchange_weak"}
BODIES = [
    "<slice as llfree::atomic::AtomicSlice>::compare_exchange_all",
    "llfree::bitfield::Bitfield::toggle",
    "llfree::bitfield::Bitfield::set_first_zero_rows",
]


def _next_calls(t):
    return [x for x in T.walk(t) if x[0] == "call" and x[1].endswith("::iterator::Iterator>::next")]


def _iter_source(next_call):
    """Strips &, into_iter from the iterator operand of a `next` call term."""
    it = next_call[2][0]
    while True:
        it = T.strip_refs(it)
        if it[0] == "call" and it[1].endswith("IntoIterator>::into_iter"):
            it = it[2][0]
            continue
        if it[0] == "call" and it[1] == "core::iter::traits::collect::IntoIterator::into_iter":
            it = it[2][0]
            continue
        return it


def analyse_body(b, prog):
    """Returns list of dict(fwd_block, fwd_term, fail_succ, undo_sites, ...) for forward CAS sites in loops."""
    tm = T.Terms(b, prog)
    loops = cfg.natural_loops(b)
    in_loop = set()
    for h, blocks in loops:
        in_loop |= blocks
    cas_sites = [(bi, t) for bi, t in b.calls() if callee_name(t["callee"]) in CAS and bi in in_loop]
    ps = PathSens(b, prog)
    out = []
    # undo sites: CAS sites only reachable while some other CAS site's latest result is a failure
    undo = {}
    for bi, t in cas_sites:
        states = ps.states_at_term(bi)
        for fb, ft in cas_sites:
            if fb == bi:
                continue
            if states and all(env.get(("c", fb)) == 1 for _, env in states):
                undo[bi] = fb
    for fb, ft in cas_sites:
        if fb in undo:
            continue
        info = {"fwd": fb, "fwd_term": ft, "undo": [(ub, ut) for ub, ut in cas_sites if undo.get(ub) == fb],
                "tm": tm, "ps": ps, "body": b}
        out.append(info)
    return out


def check_undo_range(rep, prog, rule, need_body):
    rep.rule(rule, "the rollback after a failed multi-word claim runs over exactly [forward start, failing index) in reverse, "
                   "on the same words, with the forward CAS's arguments swapped, and is on every path from the failure edge to a return")
    n = 0
    for fn in BODIES:
        b = need_body(prog, fn)
        rep.saw(fn)
        infos = analyse_body(b, prog)
        if not infos:
            rep.violation(rule, "%s|forward-site" % fn, "no forward CAS inside a loop found", b.span)
            continue
        for info in infos:
            n += 1
            tm = info["tm"]
            fb, ft = info["fwd"], info["fwd_term"]
            key = fn
            if not info["undo"]:
                rep.violation(rule, "%s|undo-present" % key, "the failed multi-word claim has no rollback CAS: words claimed by "
                              "this call stay claimed although it reports failure", ft["span"])
                continue
            # --- forward loop: index and start
            recv = tm.operand(ft["args"][0])
            nx = _next_calls(recv)
            if not nx:
                rep.violation(rule, "%s|forward-index" % key, "forward CAS receiver is not indexed by a loop variable: " + T.show(recv), ft["span"])
                continue
            fnext = nx[0]
            src = _iter_source(fnext)
            if src[0] == "agg" and src[1].startswith("adt:core::ops::range::Range::Range"):
                lo_f = src[2][0]
                fwd_idx = ("f", ("as", fnext, "Some"), 0, None)
            elif src[0] == "call" and src[1] == "core::iter::traits::iterator::Iterator::enumerate":
                lo_f = ("c", 0, None)
                fwd_idx = ("f", ("f", ("as", fnext, "Some"), 0, None), 0, None)
            else:
                rep.violation(rule, "%s|forward-iter" % key, "unrecognised forward iterator: " + T.show(src), ft["span"])
                continue
            f_cur, f_new = T.canon(tm.operand(ft["args"][1])), T.canon(tm.operand(ft["args"][2]))
            for ub, ut in info["undo"]:
                urecv = tm.operand(ut["args"][0])
                unx = _next_calls(urecv)
                if not unx:
                    rep.violation(rule, "%s|undo-index" % key, "rollback CAS is not indexed by a loop variable: " + T.show(urecv), ut["span"])
                    continue
                usrc = _iter_source(unx[0])
                # expected: rev(Range{lo_f, fwd_idx})
                ok_shape = usrc[0] == "call" and usrc[1] == "core::iter::traits::iterator::Iterator::rev"
                rng = usrc[2][0] if ok_shape else None
                # element form: rev(iter(ARRAY[lo..hi])) / rev(iter(ARRAY[..hi])) hands out the words themselves
                elem_array = None
                if rng and rng[0] == "call" and rng[1] == "slice::iter":
                    sl = _strip(rng[2][0])
                    if sl[0] == "call" and sl[1].endswith("::index") and len(sl[2]) == 2:
                        r_ = T.strip_refs(sl[2][1])
                        if r_[0] == "agg" and "RangeTo::RangeTo" in r_[1]:
                            elem_array, rng = _strip(sl[2][0]), ("agg", "adt:core::ops::range::Range::Range", (("c", 0, None), r_[2][0]))
                        elif r_[0] == "agg" and r_[1].startswith("adt:core::ops::range::Range::Range"):
                            elem_array, rng = _strip(sl[2][0]), r_
                excl = bool(rng) and rng[0] == "agg" and rng[1].startswith("adt:core::ops::range::Range::Range")
                if not ok_shape:
                    rep.violation(rule, "%s|undo-reversed" % key, "rollback does not iterate in reverse: " + T.show(usrc), ut["span"])
                    continue
                rep.ok(rule, "%s|undo-reversed" % key, "rollback iterates in reverse", ut["span"])
                if not excl:
                    rep.violation(rule, "%s|undo-range" % key, "rollback range is not the half-open prefix [start, failing index): %s — "
                                  "it would also flip the word whose CAS failed, which this call never owned" % T.show(rng), ut["span"])
                    continue
                lo_u, hi_u = rng[2][0], rng[2][1]
                rep.check(T.canon(lo_u) == T.canon(lo_f), rule, "%s|undo-lower" % key,
                          "rollback starts at the forward loop's start (%s)" % T.show(lo_f),
                          "rollback lower bound %s differs from the forward loop's start %s" % (T.show(lo_u), T.show(lo_f)), ut["span"])
                rep.check(T.canon(hi_u) == T.canon(fwd_idx), rule, "%s|undo-upper" % key,
                          "rollback ends (exclusive) at the failing index",
                          "rollback upper bound %s is not the failing index %s" % (T.show(hi_u), T.show(fwd_idx)), ut["span"])
                # swapped arguments
                u_cur, u_new = T.canon(tm.operand(ut["args"][1])), T.canon(tm.operand(ut["args"][2]))
                rep.check(u_cur == f_new and u_new == f_cur, rule, "%s|undo-swaps" % key,
                          "rollback CAS exchanges (new, current) of the forward CAS",
                          "rollback CAS (%s -> %s) is not the inverse of the forward CAS (%s -> %s)" % (
                              T.show(tm.operand(ut["args"][1])), T.show(tm.operand(ut["args"][2])),
                              T.show(tm.operand(ft["args"][1])), T.show(tm.operand(ft["args"][2]))), ut["span"])
                # same words: replace the index in both receivers and compare
                uidx = ("f", ("as", unx[0], "Some"), 0, None)
                if elem_array is not None:
                    fa = _forward_array(recv, fnext, src)
                    same = (fa is not None and T.canon(fa) == T.canon(elem_array)
                            and T.canon(_strip(urecv)) == T.canon(uidx))
                else:
                    same = _same_words(recv, fnext, src, urecv, uidx)
                rep.check(same, rule, "%s|undo-same-words" % key, "rollback addresses the same array as the forward claim",
                          "rollback addresses different words: forward %s, rollback %s" % (T.show(recv), T.show(urecv)), ut["span"])
                # every path from the failure edge to a return passes through the rollback loop's iterator creation
                revb = unx[0][3]  # block of the undo `next` call = loop header
                fail_succ = _failure_succ(b, info["ps"], fb)
                if fail_succ is None:
                    rep.violation(rule, "%s|failure-edge" % key, "cannot identify the failure edge of the forward CAS", ft["span"])
                    continue
                bypass = False
                for start in fail_succ:
                    r = cfg.reachable_from(b, start, stop={revb, fb})
                    if any(b.term(x)["k"] == "return" for x in r):
                        bypass = True
                rep.check(not bypass, rule, "%s|undo-on-every-path" % key, "every failure path runs the rollback loop before returning",
                          "a path from the failed CAS reaches a return without entering the rollback loop", ft["span"])
    rep.floor(rule, "multi-word claim sites", n, 3)


def _strip(t):
    while True:
        t = T.strip_refs(t)
        if t[0] == "cast" or t[0] == "*":
            t = t[1]
            continue
        return t


def _forward_array(recv, fnext, src):
    """The array whose elements the forward CAS addresses (enumerate(iter(ARRAY)) element, or ARRAY[i])."""
    if src[0] == "call" and src[1].endswith("::enumerate"):
        inner = _strip(src[2][0])
        while inner[0] == "call" and (inner[1] == "slice::iter" or inner[1].endswith("into_iter")):
            inner = _strip(inner[2][0])
        return inner
    fidx = T.canon(("f", ("as", fnext, "Some"), 0, None))
    for x in T.walk(recv):
        if x[0] == "idx" and T.canon(x[2]) == fidx:
            return _strip(x[1])
    return None


def _same_words(recv, fnext, src, urecv, uidx):
    """Forward and rollback receivers denote elements of the same array."""
    HOLE = ("hole",)

    def subst(t, what):
        if T.canon(t) == T.canon(what):
            return HOLE
        if not isinstance(t, tuple):
            return t
        return tuple(subst(x, what) if isinstance(x, tuple) else x for x in t)

    f = recv
    if src[0] == "call" and src[1].endswith("::enumerate"):
        # forward: element reference handed out by enumerate(iter(SLICE)); rollback: SLICE[k]
        inner = T.strip_refs(src[2][0])
        while inner[0] == "call" and (inner[1] == "slice::iter" or inner[1].endswith("into_iter")):
            inner = T.strip_refs(inner[2][0])
        u = T.strip_refs(urecv)
        return u[0] == "idx" and T.canon(u[1]) == T.canon(inner) and T.canon(u[2]) == T.canon(uidx)
    fidx = ("f", ("as", fnext, "Some"), 0, None)
    return T.canon(subst(f, fidx)) == T.canon(subst(urecv, uidx))


def _failure_succ(b, ps, fb):
    """Blocks entered with the forward CAS known to have failed, directly after the status test."""
    out = set()
    for n, (bi, env) in enumerate(ps.node_list):
        if env.get(("c", fb)) == 1:
            # entered from a node where it was not yet known
            out.add(bi)
    if not out:
        return None
    # keep only the earliest (those not reachable from another candidate without passing fb)
    first = set()
    for x in out:
        if not any(y != x and x in cfg.reachable_from(b, y, stop={fb}) for y in out):
            first.add(x)
    return first or out
