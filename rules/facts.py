"""Data model over the JSON fact files written by the mirfacts driver.

Nothing here executes analysed code; it is a reader for rustc's MIR as exported.
"""
import json
import os


def place_str(p):
    """Canonical string of a place; locals are `_N`."""
    s = "_%d" % p["l"]
    for e in p.get("p") or []:
        k = e["k"]
        if k == "deref":
            s = "(*%s)" % s
        elif k == "field":
            s = "%s.%d" % (s, e["i"])
        elif k == "index":
            s = "%s[_%d]" % (s, e["l"])
        elif k == "cindex":
            s = "%s[%s%d]" % (s, "-" if e["from_end"] else "", e["off"])
        elif k == "subslice":
            s = "%s[%d..%s%d]" % (s, e["from"], "-" if e["from_end"] else "", e["to"])
        elif k == "downcast":
            s = "(%s as %s)" % (s, e.get("n") or e["vi"])
        else:
            s = "%s.<%s>" % (s, k)
    return s


def op_str(o):
    if o is None:
        return "?"
    k = o["k"]
    if k in ("copy", "move"):
        return ("move " if k == "move" else "") + place_str(o["place"])
    if k == "const":
        if "fndef" in o:
            return "fn:" + o["fndef"]
        if "val" in o:
            n = o.get("cname")
            return ("%s=" % n if n else "") + str(o["val"])
        if "str" in o:
            return json.dumps(o["str"])
        if "cname" in o:
            return "const:" + o["cname"]
        return "const<%s>" % o["ty"]
    return k


def rv_str(rv):
    k = rv["k"]
    if k == "use":
        return op_str(rv["op"])
    if k == "ref":
        return ("&mut " if rv["mut"] else "&") + place_str(rv["place"])
    if k == "rawptr":
        return ("&raw mut " if rv["mut"] else "&raw const ") + place_str(rv["place"])
    if k == "cast":
        return "%s as %s (%s)" % (op_str(rv["op"]), rv["ty"], rv["kind"])
    if k == "binop":
        return "%s(%s, %s)" % (rv["op"], op_str(rv["a"]), op_str(rv["b"]))
    if k == "unop":
        return "%s(%s)" % (rv["op"], op_str(rv["a"]))
    if k == "discr":
        return "discriminant(%s)" % place_str(rv["place"])
    if k == "aggregate":
        kd = rv["kind"]
        ops = ", ".join(op_str(o) for o in rv["ops"])
        if kd["k"] == "adt":
            return "%s::%s{%s}" % (kd["adt"], kd["variant"], ops)
        if kd["k"] == "closure":
            return "closure %s [%s]" % (kd["def"], ops)
        return "%s(%s)" % (kd["k"], ops)
    if k == "repeat":
        return "[%s; %s]" % (op_str(rv["op"]), rv["n"])
    return k


def callee_name(c):
    """Best resolved canonical callee name, or None for an indirect call."""
    if c.get("indirect"):
        return None
    return c.get("res") or c["def"]


def span_str(sp):
    if not sp:
        return "?"
    return "%s:%d:%d" % (sp["f"], sp["l"], sp["c"])


_PARAM_TABLE = None


def _param_table():
    global _PARAM_TABLE
    if _PARAM_TABLE is None:
        import json as _json
        import os as _os
        path = _os.path.join(_os.path.dirname(_os.path.dirname(_os.path.abspath(__file__))), "tables", "param_names.json")
        try:
            _PARAM_TABLE = _json.load(open(path)) if not _os.environ.get("VERIF_NO_PARAM_TABLE") else {}
        except OSError:
            _PARAM_TABLE = {}
    return _PARAM_TABLE


class Body:
    def __init__(self, j, crate):
        self.j = j
        self.crate = crate
        self.name = j["name"]
        self.kind = j["kind"]
        self.parent = j.get("parent")
        self.blocks = j["blocks"]
        self.locals = j["locals"]
        self.arg_count = j["arg_count"]
        self.span = j["span"]
        self.is_unsafe = j.get("unsafe", False)
        self.vis = j.get("vis")
        self.impl_trait = j.get("impl_trait")
        self.impl_self = j.get("impl_self")
        self._succ = None
        self._pred = None
        self._defs = None
        self._apply_reference_names()

    def _apply_reference_names(self):
        """Parameters and captured variables are identified by position: the names the rules use are those recorded in
        tables/param_names.json for this function (arity must agree), so renaming a parameter, a closure parameter or a captured
        local in the source does not change any verdict. Functions not in the table keep their source names."""
        ref = _param_table().get(self.name)
        if not ref:
            return
        ptys = [self.locals[i]["ty"] for i in range(1, self.arg_count + 1)]
        skip = 1 if self.kind == "closure" else 0       # a closure's first parameter is its environment (type names a source position)
        if "ptys" in ref and ref["ptys"][skip:] != ptys[skip:]:
            return      # not the function the table describes (e.g. closure indices shifted): keep the source names
        if len(ref.get("params", [])) == self.arg_count:
            for i, n in enumerate(ref["params"]):
                if n is not None and self.locals[i + 1].get("name") is not None:
                    self.locals[i + 1] = dict(self.locals[i + 1], name=n)
        ups = self.j.get("upvars")
        if ups and len(ref.get("upvars", [])) == len(ups) and ("utys" not in ref or ref["utys"] == [u.get("place", {}).get("ty") for u in ups]):
            self.j = dict(self.j, upvars=[dict(u, name=n) if n is not None else u for u, n in zip(ups, ref["upvars"])])

    # ---- CFG ----
    def term(self, b):
        return self.blocks[b]["term"]

    def succ(self, b):
        if self._succ is None:
            self._succ = [self._succ_of(i) for i in range(len(self.blocks))]
        return self._succ[b]

    def _succ_of(self, b):
        t = self.blocks[b]["term"]
        k = t["k"]
        if k == "goto":
            return [t["target"]]
        if k == "switch":
            out = []
            for _, tg in t["targets"]:
                if tg not in out:
                    out.append(tg)
            if t["otherwise"] not in out:
                out.append(t["otherwise"])
            return out
        if k in ("call", "assert", "drop"):
            tg = t.get("target")
            return [tg] if tg is not None else []
        return []

    def pred(self, b):
        if self._pred is None:
            self._pred = [[] for _ in self.blocks]
            for i in range(len(self.blocks)):
                for s in self.succ(i):
                    self._pred[s].append(i)
        return self._pred[b]

    def nblocks(self):
        return len(self.blocks)

    def local_name(self, l):
        return self.locals[l].get("name")

    def local_ty(self, l):
        return self.locals[l]["ty"]

    def locals_named(self, name):
        return [i for i, l in enumerate(self.locals) if l.get("name") == name]

    def arg_local(self, name):
        for i in range(1, self.arg_count + 1):
            if self.locals[i].get("name") == name:
                return i
        return None

    # ---- iteration helpers ----
    def calls(self):
        """Yield (block index, terminator) for every call terminator."""
        for i, b in enumerate(self.blocks):
            if b["term"]["k"] in ("call", "tailcall"):
                yield i, b["term"]

    def calls_to(self, *names):
        for i, t in self.calls():
            n = callee_name(t["callee"])
            if n in names or t["callee"].get("def") in names:
                yield i, t

    def stmts(self):
        for i, b in enumerate(self.blocks):
            for si, s in enumerate(b["stmts"]):
                yield i, si, s

    def defs(self):
        """local -> list of (block, stmt index or 'term') that assign the whole local or a
        projection of it."""
        if self._defs is None:
            d = {}
            for bi, si, s in self.stmts():
                if s["k"] in ("assign", "set_discr"):
                    proj = s["place"].get("p") or []
                    if proj and proj[0]["k"] == "deref":
                        continue  # writes to the pointee, not to the local itself
                    d.setdefault(s["place"]["l"], []).append((bi, si))
            for bi, b in enumerate(self.blocks):
                t = b["term"]
                if t["k"] == "call":
                    d.setdefault(t["dest"]["l"], []).append((bi, "term"))
            self._defs = d
        return self._defs

    def whole_defs(self, l):
        """Definitions that assign the whole local `l` (no projection)."""
        out = []
        for (bi, si) in self.defs().get(l, []):
            if si == "term":
                if not self.blocks[bi]["term"]["dest"].get("p"):
                    out.append((bi, si))
            else:
                s = self.blocks[bi]["stmts"][si]
                if s["k"] == "assign" and not s["place"].get("p"):
                    out.append((bi, si))
        return out

    def dump(self):
        out = []
        out.append("fn %s  [%s]" % (self.name, span_str(self.span)))
        for i, l in enumerate(self.locals):
            out.append("  let _%d: %s%s" % (i, l["ty"], ("  // " + l["name"]) if l.get("name") else ""))
        for u in self.j.get("upvars", []):
            out.append("  upvar %s = %s" % (u["name"], place_str(u["place"])))
        for bi, b in enumerate(self.blocks):
            out.append("  bb%d:%s" % (bi, " (cleanup)" if b.get("cleanup") else ""))
            for s in b["stmts"]:
                if s["k"] == "assign":
                    out.append("    %s = %s   @%d" % (place_str(s["place"]), rv_str(s["rv"]), s["span"]["l"]))
                elif s["k"] == "set_discr":
                    out.append("    discriminant(%s) = %d" % (place_str(s["place"]), s["vi"]))
            t = b["term"]
            k = t["k"]
            if k == "call":
                c = t["callee"]
                if c.get("indirect"):
                    cn = "INDIRECT(%s)" % op_str(c["op"])
                else:
                    cn = callee_name(c)
                out.append("    %s = %s(%s) -> %s   @%d" % (
                    place_str(t["dest"]), cn, ", ".join(op_str(a) for a in t["args"]),
                    "bb%s" % t["target"] if t.get("target") is not None else "!", t["span"]["l"]))
            elif k == "switch":
                out.append("    switch %s [%s, otherwise: bb%d]" % (
                    op_str(t["discr"]), ", ".join("%d: bb%d" % (v, tg) for v, tg in t["targets"]), t["otherwise"]))
            elif k == "assert":
                m = t["msg"]
                out.append("    assert(%s == %s, %s) -> bb%d   @%d" % (
                    op_str(t["cond"]), t["expected"], m["k"] + (":" + m.get("op", "") if m["k"] == "overflow" else ""),
                    t["target"], t["span"]["l"]))
            elif k == "goto":
                out.append("    goto bb%d" % t["target"])
            elif k == "drop":
                out.append("    drop(%s) -> bb%d" % (place_str(t["place"]), t["target"]))
            else:
                out.append("    %s" % k)
        return "\n".join(out)


class Crate:
    def __init__(self, path):
        with open(path) as f:
            self.j = json.load(f)
        self.name = self.j["crate"]
        self.features = self.j["features"]
        self.consts = self.j["consts"]
        self.layouts = self.j["layouts"]
        self.adts = self.j["adts"]
        self.bodies = {}
        for b in self.j["bodies"]:
            body = Body(b, self)
            self.bodies[body.name] = body

    def body(self, name):
        return self.bodies.get(name)

    def const(self, name):
        v = self.consts.get(name)
        if isinstance(v, str):
            return int(v)
        return v

    def closures_of(self, name):
        """Direct closure bodies of `name`, ordered by index."""
        pre = name + "::{closure#"
        out = []
        for n, b in self.bodies.items():
            if n.startswith(pre) and n[len(pre):].rstrip("}").isdigit() and n.endswith("}"):
                out.append(b)
        out.sort(key=lambda b: int(b.name[len(pre):-1]))
        return out


class Program:
    """A set of crates analysed together (one compile-time configuration)."""

    def __init__(self, paths, config="default"):
        self.config = config
        self.crates = {}
        for p in paths:
            c = Crate(p)
            self.crates[c.name] = c

    def crate(self, name):
        return self.crates.get(name)

    def body(self, name):
        for c in self.crates.values():
            b = c.bodies.get(name)
            if b is not None:
                return b
        return None

    def all_bodies(self):
        for c in self.crates.values():
            for b in c.bodies.values():
                yield b


if __name__ == "__main__":
    import sys
    c = Crate(sys.argv[1])
    pat = sys.argv[2] if len(sys.argv) > 2 else None
    for n, b in c.bodies.items():
        if pat is None:
            print(n)
        elif pat in n:
            print(b.dump())
            print()
