//! mirfacts: a rustc driver that exports the type-checked program (MIR with resolved
//! callees, evaluated constants, layouts, ADT tables) of selected crates as JSON.
//!
//! Used as RUSTC_WORKSPACE_WRAPPER under `cargo +nightly check`. It never runs the
//! analysed code; it only inspects rustc's own intermediate representation.
//!
//! Environment:
//!   MIRFACTS_OUT     directory for `<crate>.json` (required for export)
//!   MIRFACTS_CRATES  comma separated crate names to export (default: all local)
#![feature(rustc_private)]

extern crate rustc_abi;
extern crate rustc_driver;
extern crate rustc_hir;
extern crate rustc_interface;
extern crate rustc_middle;
extern crate rustc_session;
extern crate rustc_span;

use std::collections::BTreeMap;
use std::fmt::Write as _;

use rustc_driver::Compilation;
use rustc_hir::def::DefKind;
use rustc_hir::def_id::{DefId, LocalDefId, LOCAL_CRATE};
use rustc_hir::definitions::DefPathData;
use rustc_middle::mir::{
    self, AggregateKind, AssertKind, BinOp, Body, CastKind, Const, ConstValue, Operand, Place,
    ProjectionElem, Rvalue, StatementKind, TerminatorKind, UnOp,
};
use rustc_middle::ty::{self, Instance, Ty, TyCtxt, TypingEnv};
use rustc_span::Span;

// ---------------------------------------------------------------------------------------
// Minimal JSON writer
// ---------------------------------------------------------------------------------------

#[derive(Clone)]
enum J {
    Null,
    Bool(bool),
    Int(i128),
    Str(String),
    Arr(Vec<J>),
    Obj(Vec<(&'static str, J)>),
    Map(BTreeMap<String, J>),
}

fn jstr(s: impl Into<String>) -> J {
    J::Str(s.into())
}

impl J {
    fn write(&self, out: &mut String) {
        match self {
            J::Null => out.push_str("null"),
            J::Bool(b) => out.push_str(if *b { "true" } else { "false" }),
            J::Int(i) => {
                // JSON numbers beyond 2^63 are emitted as strings to stay portable
                if *i > i64::MAX as i128 || *i < i64::MIN as i128 {
                    let _ = write!(out, "\"{}\"", i);
                } else {
                    let _ = write!(out, "{}", i);
                }
            }
            J::Str(s) => write_str(s, out),
            J::Arr(a) => {
                out.push('[');
                for (i, v) in a.iter().enumerate() {
                    if i > 0 {
                        out.push(',');
                    }
                    v.write(out);
                }
                out.push(']');
            }
            J::Obj(o) => {
                out.push('{');
                let mut first = true;
                for (k, v) in o.iter() {
                    if matches!(v, J::Null) {
                        continue;
                    }
                    if !first {
                        out.push(',');
                    }
                    first = false;
                    write_str(k, out);
                    out.push(':');
                    v.write(out);
                }
                out.push('}');
            }
            J::Map(m) => {
                out.push('{');
                for (i, (k, v)) in m.iter().enumerate() {
                    if i > 0 {
                        out.push(',');
                    }
                    write_str(k, out);
                    out.push(':');
                    v.write(out);
                }
                out.push('}');
            }
        }
    }
}

fn write_str(s: &str, out: &mut String) {
    out.push('"');
    for c in s.chars() {
        match c {
            '"' => out.push_str("\\\""),
            '\\' => out.push_str("\\\\"),
            '\n' => out.push_str("\\n"),
            '\r' => out.push_str("\\r"),
            '\t' => out.push_str("\\t"),
            c if (c as u32) < 0x20 => {
                let _ = write!(out, "\\u{:04x}", c as u32);
            }
            c => out.push(c),
        }
    }
    out.push('"');
}

// ---------------------------------------------------------------------------------------
// Canonical names
// ---------------------------------------------------------------------------------------

fn simplify_ty<'tcx>(tcx: TyCtxt<'tcx>, ty: Ty<'tcx>) -> String {
    match ty.kind() {
        ty::Adt(def, _) => canon(tcx, def.did()),
        ty::Slice(_) => "slice".into(),
        ty::Array(..) => "array".into(),
        ty::RawPtr(_, m) => {
            if m.is_mut() {
                "ptr_mut".into()
            } else {
                "ptr_const".into()
            }
        }
        ty::Ref(_, inner, _) => format!("&{}", simplify_ty(tcx, *inner)),
        ty::Str => "str".into(),
        ty::Bool | ty::Char | ty::Int(_) | ty::Uint(_) | ty::Float(_) => ty.to_string(),
        ty::Tuple(_) => "tuple".into(),
        ty::Param(p) => p.name.to_string(),
        ty::FnPtr(..) => "fnptr".into(),
        ty::Closure(did, _) => canon(tcx, *did),
        ty::FnDef(did, _) => canon(tcx, *did),
        ty::Dynamic(..) => "dyn".into(),
        ty::Never => "!".into(),
        _ => "?".into(),
    }
}

fn plain_path(tcx: TyCtxt<'_>, did: DefId) -> String {
    let mut s = tcx.crate_name(did.krate).to_string();
    for d in tcx.def_path(did).data {
        match d.data {
            DefPathData::TypeNs(n) | DefPathData::ValueNs(n) | DefPathData::MacroNs(n) => {
                s.push_str("::");
                s.push_str(n.as_str());
            }
            DefPathData::Impl => s.push_str("::{impl}"),
            DefPathData::Closure => {
                let _ = write!(s, "::{{closure#{}}}", d.disambiguator);
            }
            other => {
                let _ = write!(s, "::{{{:?}#{}}}", other, d.disambiguator);
            }
        }
    }
    s
}

fn item_name(tcx: TyCtxt<'_>, did: DefId) -> String {
    match tcx.opt_item_name(did) {
        Some(n) => n.to_string(),
        None => "{anon}".into(),
    }
}

/// Canonical, generics-free name of a definition.
fn canon(tcx: TyCtxt<'_>, did: DefId) -> String {
    let kind = tcx.def_kind(did);
    match kind {
        DefKind::Closure => {
            let parent = tcx.parent(did);
            let dis = tcx.def_key(did).disambiguated_data.disambiguator;
            format!("{}::{{closure#{}}}", canon(tcx, parent), dis)
        }
        DefKind::AssocFn | DefKind::AssocConst { .. } | DefKind::AssocTy => {
            let parent = tcx.parent(did);
            let name = item_name(tcx, did);
            match tcx.def_kind(parent) {
                DefKind::Impl { of_trait } => {
                    let self_ty = tcx.type_of(parent).instantiate_identity().skip_norm_wip();
                    let s = simplify_ty(tcx, self_ty);
                    if of_trait {
                        let tr = tcx.impl_trait_id(parent);
                        format!("<{} as {}>::{}", s, canon(tcx, tr), name)
                    } else {
                        format!("{}::{}", s, name)
                    }
                }
                _ => format!("{}::{}", canon(tcx, parent), name),
            }
        }
        DefKind::Fn | DefKind::Const { .. } | DefKind::Static { .. } | DefKind::InlineConst | DefKind::AnonConst => {
            let parent = tcx.parent(did);
            match tcx.def_kind(parent) {
                DefKind::Fn | DefKind::AssocFn | DefKind::Closure | DefKind::Const { .. } | DefKind::AssocConst { .. } => {
                    let name = match kind {
                        DefKind::InlineConst | DefKind::AnonConst => format!(
                            "{{const#{}}}",
                            tcx.def_key(did).disambiguated_data.disambiguator
                        ),
                        _ => item_name(tcx, did),
                    };
                    format!("{}::{}", canon(tcx, parent), name)
                }
                _ => plain_path(tcx, did),
            }
        }
        _ => plain_path(tcx, did),
    }
}

// ---------------------------------------------------------------------------------------
// Exporter
// ---------------------------------------------------------------------------------------

struct Ex<'tcx> {
    tcx: TyCtxt<'tcx>,
    layouts: BTreeMap<String, J>,
    adts_seen: BTreeMap<String, DefId>,
}

impl<'tcx> Ex<'tcx> {
    fn span(&self, sp: Span) -> J {
        let sm = self.tcx.sess.source_map();
        // Use the call-site span so that code inside macros points to user code.
        let orig = sp;
        let sp = sp.source_callsite();
        let lo = sm.lookup_char_pos(sp.lo());
        let file = match &lo.file.name {
            rustc_span::FileName::Real(r) => match r.local_path() {
                Some(p) => p.to_string_lossy().to_string(),
                None => format!("{:?}", lo.file.name),
            },
            other => format!("{:?}", other),
        };
        let mut macros = Vec::new();
        if orig.from_expansion() {
            for d in orig.macro_backtrace() {
                if let rustc_span::ExpnKind::Macro(_, name) = d.kind {
                    macros.push(jstr(name.as_str()));
                } else {
                    macros.push(jstr(format!("{:?}", d.kind)));
                }
            }
        }
        J::Obj(vec![
            ("f", jstr(file)),
            ("l", J::Int(lo.line as i128)),
            ("c", J::Int(lo.col.0 as i128 + 1)),
            ("m", if macros.is_empty() { J::Null } else { J::Arr(macros) }),
        ])
    }

    fn ty_str(&self, ty: Ty<'tcx>) -> String {
        rustc_middle::ty::print::with_no_trimmed_paths!(ty.to_string())
    }

    fn note_layout(&mut self, env: TypingEnv<'tcx>, ty: Ty<'tcx>) {
        let ty = ty.peel_refs();
        let ty = match ty.kind() {
            ty::RawPtr(inner, _) => inner.peel_refs(),
            _ => ty,
        };
        use rustc_middle::ty::TypeVisitableExt;
        if ty.has_non_region_param() || ty.has_escaping_bound_vars() || ty.has_aliases() {
            return;
        }
        if let ty::Adt(def, _) = ty.kind() {
            { let d__ = def.did(); let n__ = canon(self.tcx, d__); self.adts_seen.insert(n__, d__); }
        }
        let key = self.ty_str(ty);
        if self.layouts.contains_key(&key) {
            return;
        }
        let v = match self.tcx.layout_of(env.as_query_input(ty)) {
            Ok(l) if l.is_sized() => J::Obj(vec![
                ("size", J::Int(l.size.bytes() as i128)),
                ("align", J::Int(l.align.abi.bytes() as i128)),
            ]),
            _ => J::Null,
        };
        self.layouts.insert(key, v);
    }

    fn generic_args(&self, args: ty::GenericArgsRef<'tcx>) -> J {
        let mut v = Vec::new();
        for a in args.iter() {
            match a.kind() {
                ty::GenericArgKind::Type(t) => match t.kind() {
                    ty::Closure(did, _) => v.push(J::Obj(vec![("closure", jstr(canon(self.tcx, *did)))])),
                    ty::FnDef(did, _) => v.push(J::Obj(vec![("fndef", jstr(canon(self.tcx, *did)))])),
                    _ => v.push(jstr(self.ty_str(t))),
                },
                ty::GenericArgKind::Const(c) => v.push(jstr(format!("{}", c))),
                ty::GenericArgKind::Lifetime(_) => {}
            }
        }
        J::Arr(v)
    }

    fn place(&mut self, body: &Body<'tcx>, p: &Place<'tcx>) -> J {
        let tcx = self.tcx;
        let mut elems = Vec::new();
        let mut pty = mir::PlaceTy::from_ty(body.local_decls[p.local].ty);
        for elem in p.projection.iter() {
            let j = match elem {
                ProjectionElem::Deref => {
                    let kind = match pty.ty.kind() {
                        ty::RawPtr(..) => "raw",
                        ty::Ref(..) => "ref",
                        _ => "box",
                    };
                    J::Obj(vec![("k", jstr("deref")), ("ptr", jstr(kind))])
                }
                ProjectionElem::Field(f, fty) => {
                    let mut name = J::Null;
                    let mut of = J::Null;
                    if let ty::Adt(def, _) = pty.ty.kind() {
                        let vi = pty.variant_index.unwrap_or(rustc_abi::FIRST_VARIANT);
                        if def.is_enum() || def.is_struct() || def.is_union() {
                            let variant = def.variant(vi);
                            if let Some(fd) = variant.fields.get(f) {
                                name = jstr(fd.name.as_str());
                            }
                        }
                        of = jstr(canon(tcx, def.did()));
                    }
                    J::Obj(vec![
                        ("k", jstr("field")),
                        ("i", J::Int(f.as_usize() as i128)),
                        ("n", name),
                        ("of", of),
                        ("ty", jstr(self.ty_str(fty))),
                    ])
                }
                ProjectionElem::Index(l) => J::Obj(vec![
                    ("k", jstr("index")),
                    ("l", J::Int(l.as_usize() as i128)),
                ]),
                ProjectionElem::ConstantIndex { offset, min_length, from_end } => J::Obj(vec![
                    ("k", jstr("cindex")),
                    ("off", J::Int(offset as i128)),
                    ("min", J::Int(min_length as i128)),
                    ("from_end", J::Bool(from_end)),
                ]),
                ProjectionElem::Subslice { from, to, from_end } => J::Obj(vec![
                    ("k", jstr("subslice")),
                    ("from", J::Int(from as i128)),
                    ("to", J::Int(to as i128)),
                    ("from_end", J::Bool(from_end)),
                ]),
                ProjectionElem::Downcast(name, vi) => J::Obj(vec![
                    ("k", jstr("downcast")),
                    ("n", match name {
                        Some(n) => jstr(n.as_str()),
                        None => J::Null,
                    }),
                    ("vi", J::Int(vi.as_usize() as i128)),
                ]),
                ProjectionElem::OpaqueCast(_) => J::Obj(vec![("k", jstr("opaque"))]),
                ProjectionElem::UnwrapUnsafeBinder(_) => J::Obj(vec![("k", jstr("unbinder"))]),
            };
            elems.push(j);
            pty = pty.projection_ty(tcx, elem);
        }
        let has_proj = !elems.is_empty();
        J::Obj(vec![
            ("l", J::Int(p.local.as_usize() as i128)),
            ("p", if has_proj { J::Arr(elems) } else { J::Null }),
            ("ty", if has_proj { jstr(self.ty_str(pty.ty)) } else { J::Null }),
        ])
    }

    fn constant(&mut self, env: TypingEnv<'tcx>, c: &mir::ConstOperand<'tcx>) -> J {
        let tcx = self.tcx;
        let ty = c.const_.ty();
        let mut fields: Vec<(&'static str, J)> = vec![("k", jstr("const")), ("ty", jstr(self.ty_str(ty)))];
        match ty.kind() {
            ty::FnDef(did, args) => {
                fields.push(("fndef", jstr(canon(tcx, *did))));
                fields.push(("fnargs", self.generic_args(args)));
            }
            ty::Closure(did, _) => {
                fields.push(("closure", jstr(canon(tcx, *did))));
            }
            _ => {}
        }
        // named constant?
        match c.const_ {
            Const::Unevaluated(uv, _) => {
                fields.push(("cname", jstr(canon(tcx, uv.def))));
                if uv.promoted.is_some() {
                    fields.push(("promoted", J::Bool(true)));
                }
            }
            Const::Ty(_, tc) => {
                if let ty::ConstKind::Unevaluated(uv) = tc.kind() {
                    fields.push(("cname", jstr(canon(tcx, uv.def))));
                }
                if let ty::ConstKind::Param(p) = tc.kind() {
                    fields.push(("cparam", jstr(p.name.as_str())));
                }
            }
            Const::Val(..) => {}
        }
        let is_scalar_ty = matches!(
            ty.kind(),
            ty::Bool | ty::Char | ty::Int(_) | ty::Uint(_)
        );
        if is_scalar_ty {
            if let Some(si) = c.const_.try_eval_scalar_int(tcx, env) {
                let size = si.size();
                let bits = si.to_bits(size);
                let v: i128 = match ty.kind() {
                    ty::Int(_) => {
                        // sign extend
                        let sh = 128 - size.bits();
                        ((bits << sh) as i128) >> sh
                    }
                    _ => bits as i128,
                };
                if bits > i128::MAX as u128 {
                    fields.push(("val", jstr(format!("{}", bits))));
                } else {
                    fields.push(("val", J::Int(v)));
                }
            }
        } else if let ty::Ref(_, inner, _) = ty.kind() {
            if inner.is_str() {
                if let Ok(cv) = c.const_.eval(tcx, env, c.span) {
                    if let ConstValue::Slice { .. } = cv {
                        if let Some(bytes) = cv.try_get_slice_bytes_for_diagnostics(tcx) {
                            fields.push(("str", jstr(String::from_utf8_lossy(bytes).to_string())));
                        }
                    }
                }
            } else if let ty::Adt(..) | ty::Uint(_) | ty::Int(_) | ty::Bool = inner.kind() {
                // `&CONST` of a small value (e.g. a promoted `&Init::None`): export the pointee bytes
                if let Ok(cv) = c.const_.eval(tcx, env, c.span) {
                    if let ConstValue::Scalar(rustc_middle::mir::interpret::Scalar::Ptr(ptr, _)) = cv {
                        let (prov, offset) = ptr.prov_and_relative_offset();
                        if let Some(rustc_middle::mir::interpret::GlobalAlloc::Memory(alloc)) =
                            tcx.try_get_global_alloc(prov.alloc_id())
                        {
                            if let Ok(l) = tcx.layout_of(env.as_query_input(*inner)) {
                                let size = l.size.bytes() as usize;
                                let off = offset.bytes() as usize;
                                let a = alloc.inner();
                                if size > 0 && size <= 8 && off + size <= a.len() && a.provenance().ptrs().is_empty() {
                                    let bytes = a.inspect_with_uninit_and_ptr_outside_interpreter(off..off + size);
                                    let mut v: u64 = 0;
                                    for (i, b) in bytes.iter().enumerate() {
                                        v |= (*b as u64) << (8 * i);
                                    }
                                    fields.push(("deref_val", J::Int(v as i128)));
                                    if let ty::Adt(def, _) = inner.kind() {
                                        fields.push(("deref_adt", jstr(canon(tcx, def.did()))));
                                    }
                                }
                            }
                        }
                    }
                }
            }
        } else if let ty::Adt(def, _) = ty.kind() {
            // small C-like enums / newtypes: try scalar
            if let Some(si) = c.const_.try_eval_scalar_int(tcx, env) {
                let size = si.size();
                if size.bytes() > 0 {
                    fields.push(("val", J::Int(si.to_bits(size) as i128)));
                }
            }
            fields.push(("adt", jstr(canon(tcx, def.did()))));
        }
        J::Obj(fields)
    }

    fn operand(&mut self, body: &Body<'tcx>, env: TypingEnv<'tcx>, o: &Operand<'tcx>) -> J {
        match o {
            Operand::Copy(p) => {
                let pj = self.place(body, p);
                J::Obj(vec![("k", jstr("copy")), ("place", pj)])
            }
            Operand::Move(p) => {
                let pj = self.place(body, p);
                J::Obj(vec![("k", jstr("move")), ("place", pj)])
            }
            Operand::Constant(c) => self.constant(env, c),
            Operand::RuntimeChecks(rc) => J::Obj(vec![
                ("k", jstr("runtime_checks")),
                ("which", jstr(format!("{:?}", rc))),
            ]),
        }
    }

    fn rvalue(&mut self, body: &Body<'tcx>, env: TypingEnv<'tcx>, rv: &Rvalue<'tcx>) -> J {
        let tcx = self.tcx;
        match rv {
            Rvalue::Use(op, _) => {
                let o = self.operand(body, env, op);
                J::Obj(vec![("k", jstr("use")), ("op", o)])
            }
            Rvalue::Repeat(op, n) => {
                let o = self.operand(body, env, op);
                J::Obj(vec![("k", jstr("repeat")), ("op", o), ("n", jstr(format!("{}", n)))])
            }
            Rvalue::Ref(_, bk, p) => {
                let pj = self.place(body, p);
                let m = matches!(bk, mir::BorrowKind::Mut { .. });
                J::Obj(vec![("k", jstr("ref")), ("mut", J::Bool(m)), ("place", pj)])
            }
            Rvalue::ThreadLocalRef(did) => {
                J::Obj(vec![("k", jstr("tls")), ("def", jstr(canon(tcx, *did)))])
            }
            Rvalue::RawPtr(kind, p) => {
                let pj = self.place(body, p);
                J::Obj(vec![
                    ("k", jstr("rawptr")),
                    ("mut", J::Bool(matches!(kind, mir::RawPtrKind::Mut))),
                    ("place", pj),
                ])
            }
            Rvalue::Cast(kind, op, ty) => {
                let o = self.operand(body, env, op);
                self.note_layout(env, *ty);
                let from = op.ty(&body.local_decls, tcx);
                self.note_layout(env, from);
                let ks = match kind {
                    CastKind::PointerCoercion(pc, _) => format!("PointerCoercion({:?})", pc),
                    other => format!("{:?}", other),
                };
                J::Obj(vec![
                    ("k", jstr("cast")),
                    ("kind", jstr(ks)),
                    ("op", o),
                    ("from", jstr(self.ty_str(from))),
                    ("ty", jstr(self.ty_str(*ty))),
                ])
            }
            Rvalue::BinaryOp(op, ab) => {
                let a = self.operand(body, env, &ab.0);
                let b = self.operand(body, env, &ab.1);
                let name = match op {
                    BinOp::AddWithOverflow => "AddWithOverflow".to_string(),
                    other => format!("{:?}", other),
                };
                J::Obj(vec![("k", jstr("binop")), ("op", jstr(name)), ("a", a), ("b", b)])
            }
            Rvalue::UnaryOp(op, a) => {
                let a = self.operand(body, env, a);
                let name = match op {
                    UnOp::Not => "Not",
                    UnOp::Neg => "Neg",
                    UnOp::PtrMetadata => "PtrMetadata",
                };
                J::Obj(vec![("k", jstr("unop")), ("op", jstr(name)), ("a", a)])
            }
            Rvalue::Discriminant(p) => {
                let pj = self.place(body, p);
                let pty = p.ty(&body.local_decls, tcx).ty;
                let of = match pty.kind() {
                    ty::Adt(def, _) => {
                        { let d__ = def.did(); let n__ = canon(self.tcx, d__); self.adts_seen.insert(n__, d__); }
                        jstr(canon(tcx, def.did()))
                    }
                    _ => J::Null,
                };
                J::Obj(vec![("k", jstr("discr")), ("place", pj), ("of", of)])
            }
            Rvalue::Aggregate(kind, ops) => {
                let mut v = Vec::new();
                for o in ops.iter() {
                    v.push(self.operand(body, env, o));
                }
                let kj = match &**kind {
                    AggregateKind::Array(t) => J::Obj(vec![("k", jstr("array")), ("ty", jstr(self.ty_str(*t)))]),
                    AggregateKind::Tuple => J::Obj(vec![("k", jstr("tuple"))]),
                    AggregateKind::Adt(did, vi, _args, _, active) => {
                        let def = tcx.adt_def(*did);
                        { let d__ = *did; let n__ = canon(self.tcx, d__); self.adts_seen.insert(n__, d__); }
                        let variant = def.variant(*vi);
                        let discr = if def.is_enum() {
                            J::Int(def.discriminant_for_variant(tcx, *vi).val as i128)
                        } else {
                            J::Null
                        };
                        J::Obj(vec![
                            ("k", jstr("adt")),
                            ("adt", jstr(canon(tcx, *did))),
                            ("variant", jstr(variant.name.as_str())),
                            ("vi", J::Int(vi.as_usize() as i128)),
                            ("discr", discr),
                            ("fields", J::Arr(variant.fields.iter().map(|f| jstr(f.name.as_str())).collect())),
                            ("active", match active {
                                Some(f) => J::Int(f.as_usize() as i128),
                                None => J::Null,
                            }),
                        ])
                    }
                    AggregateKind::Closure(did, _) => {
                        J::Obj(vec![("k", jstr("closure")), ("def", jstr(canon(tcx, *did)))])
                    }
                    AggregateKind::Coroutine(did, _) | AggregateKind::CoroutineClosure(did, _) => {
                        J::Obj(vec![("k", jstr("coroutine")), ("def", jstr(canon(tcx, *did)))])
                    }
                    AggregateKind::RawPtr(t, m) => J::Obj(vec![
                        ("k", jstr("rawptr")),
                        ("ty", jstr(self.ty_str(*t))),
                        ("mut", J::Bool(m.is_mut())),
                    ]),
                };
                J::Obj(vec![("k", jstr("aggregate")), ("kind", kj), ("ops", J::Arr(v))])
            }
            Rvalue::CopyForDeref(p) => {
                let pj = self.place(body, p);
                J::Obj(vec![
                    ("k", jstr("use")),
                    ("op", J::Obj(vec![("k", jstr("copy")), ("place", pj)])),
                    ("deref_tmp", J::Bool(true)),
                ])
            }
            Rvalue::WrapUnsafeBinder(op, _) => {
                let o = self.operand(body, env, op);
                J::Obj(vec![("k", jstr("use")), ("op", o)])
            }
        }
    }

    fn callee(
        &mut self,
        body: &Body<'tcx>,
        env: TypingEnv<'tcx>,
        func: &Operand<'tcx>,
    ) -> J {
        let tcx = self.tcx;
        let fty = func.ty(&body.local_decls, tcx);
        match fty.kind() {
            ty::FnDef(did, args) => {
                for a in args.iter() {
                    if let ty::GenericArgKind::Type(t) = a.kind() {
                        self.note_layout(env, t);
                    }
                }
                let mut f: Vec<(&'static str, J)> = vec![
                    ("def", jstr(canon(tcx, *did))),
                    ("krate", jstr(tcx.crate_name(did.krate).as_str())),
                    ("args", self.generic_args(args)),
                ];
                let sig = tcx.fn_sig(*did).instantiate_identity().skip_norm_wip();
                f.push(("unsafe", J::Bool(sig.safety().is_unsafe())));
                // resolve through traits where possible
                use rustc_middle::ty::TypeVisitableExt;
                let resolved = if args.has_escaping_bound_vars() {
                    None
                } else {
                    Instance::try_resolve(tcx, env, *did, args).ok().flatten()
                };
                if let Some(inst) = resolved {
                    let rdid = inst.def_id();
                    let kind = match inst.def {
                        ty::InstanceKind::Item(_) => "item",
                        ty::InstanceKind::Intrinsic(_) => "intrinsic",
                        ty::InstanceKind::Virtual(..) => "virtual",
                        ty::InstanceKind::FnPtrShim(..) => "fnptr_shim",
                        ty::InstanceKind::ClosureOnceShim { .. } => "closure_once_shim",
                        ty::InstanceKind::DropGlue(..) => "drop_glue",
                        ty::InstanceKind::CloneShim(..) => "clone_shim",
                        ty::InstanceKind::ReifyShim(..) => "reify_shim",
                        _ => "other",
                    };
                    f.push(("res", jstr(canon(tcx, rdid))));
                    f.push(("res_kind", jstr(kind)));
                    f.push(("res_krate", jstr(tcx.crate_name(rdid.krate).as_str())));
                    f.push(("res_args", self.generic_args(inst.args)));
                }
                if let Some(tr) = tcx.trait_of_assoc(*did) {
                    f.push(("trait", jstr(canon(tcx, tr))));
                }
                J::Obj(f)
            }
            _ => {
                let o = self.operand(body, env, func);
                J::Obj(vec![
                    ("indirect", J::Bool(true)),
                    ("op", o),
                    ("ty", jstr(self.ty_str(fty))),
                ])
            }
        }
    }

    fn assert_msg(
        &mut self,
        body: &Body<'tcx>,
        env: TypingEnv<'tcx>,
        msg: &AssertKind<Operand<'tcx>>,
    ) -> J {
        match msg {
            AssertKind::BoundsCheck { len, index } => {
                let l = self.operand(body, env, len);
                let i = self.operand(body, env, index);
                J::Obj(vec![("k", jstr("bounds")), ("len", l), ("index", i)])
            }
            AssertKind::Overflow(op, a, b) => {
                let a = self.operand(body, env, a);
                let b = self.operand(body, env, b);
                J::Obj(vec![("k", jstr("overflow")), ("op", jstr(format!("{:?}", op))), ("a", a), ("b", b)])
            }
            AssertKind::OverflowNeg(a) => {
                let a = self.operand(body, env, a);
                J::Obj(vec![("k", jstr("overflow_neg")), ("a", a)])
            }
            AssertKind::DivisionByZero(a) => {
                let a = self.operand(body, env, a);
                J::Obj(vec![("k", jstr("div_zero")), ("a", a)])
            }
            AssertKind::RemainderByZero(a) => {
                let a = self.operand(body, env, a);
                J::Obj(vec![("k", jstr("rem_zero")), ("a", a)])
            }
            AssertKind::MisalignedPointerDereference { .. } => J::Obj(vec![("k", jstr("misaligned"))]),
            AssertKind::NullPointerDereference => J::Obj(vec![("k", jstr("null_deref"))]),
            AssertKind::InvalidEnumConstruction(_) => J::Obj(vec![("k", jstr("invalid_enum"))]),
            _ => J::Obj(vec![("k", jstr("other"))]),
        }
    }

    fn body(&mut self, did: LocalDefId) -> Option<J> {
        let tcx = self.tcx;
        let def_id = did.to_def_id();
        let kind = tcx.def_kind(def_id);
        let is_fn_like = matches!(kind, DefKind::Fn | DefKind::AssocFn | DefKind::Closure);
        if !is_fn_like {
            return None;
        }
        if !tcx.is_mir_available(def_id) {
            return None;
        }
        let body: &Body<'tcx> = tcx.optimized_mir(def_id);
        let env = TypingEnv::post_analysis(tcx, def_id);

        let mut locals = Vec::new();
        let mut names: BTreeMap<usize, String> = BTreeMap::new();
        let mut upvars = Vec::new();
        for vdi in body.var_debug_info.iter() {
            if let mir::VarDebugInfoContents::Place(p) = &vdi.value {
                if p.projection.is_empty() {
                    names.entry(p.local.as_usize()).or_insert_with(|| vdi.name.to_string());
                } else {
                    let pj = self.place(body, p);
                    upvars.push(J::Obj(vec![("name", jstr(vdi.name.as_str())), ("place", pj)]));
                }
            }
        }
        for (l, decl) in body.local_decls.iter_enumerated() {
            self.note_layout(env, decl.ty);
            locals.push(J::Obj(vec![
                ("ty", jstr(self.ty_str(decl.ty))),
                ("name", match names.get(&l.as_usize()) {
                    Some(n) => jstr(n.clone()),
                    None => J::Null,
                }),
                ("adt", match decl.ty.peel_refs().kind() {
                    ty::Adt(def, _) => jstr(canon(tcx, def.did())),
                    _ => J::Null,
                }),
            ]));
        }

        let mut blocks = Vec::new();
        for (_bb, data) in body.basic_blocks.iter_enumerated() {
            let mut stmts = Vec::new();
            for st in data.statements.iter() {
                match &st.kind {
                    StatementKind::Assign(b) => {
                        let (p, rv) = &**b;
                        let pj = self.place(body, p);
                        let rj = self.rvalue(body, env, rv);
                        stmts.push(J::Obj(vec![
                            ("k", jstr("assign")),
                            ("place", pj),
                            ("rv", rj),
                            ("span", self.span(st.source_info.span)),
                        ]));
                    }
                    StatementKind::SetDiscriminant { place, variant_index } => {
                        let pj = self.place(body, place);
                        stmts.push(J::Obj(vec![
                            ("k", jstr("set_discr")),
                            ("place", pj),
                            ("vi", J::Int(variant_index.as_usize() as i128)),
                        ]));
                    }
                    StatementKind::StorageDead(l) => {
                        stmts.push(J::Obj(vec![("k", jstr("dead")), ("l", J::Int(l.as_usize() as i128))]));
                    }
                    StatementKind::StorageLive(l) => {
                        stmts.push(J::Obj(vec![("k", jstr("live")), ("l", J::Int(l.as_usize() as i128))]));
                    }
                    StatementKind::Intrinsic(i) => {
                        let s = match &**i {
                            mir::NonDivergingIntrinsic::Assume(_) => "assume",
                            mir::NonDivergingIntrinsic::CopyNonOverlapping(_) => "copy_nonoverlapping",
                        };
                        stmts.push(J::Obj(vec![("k", jstr("intrinsic")), ("which", jstr(s))]));
                    }
                    _ => {}
                }
            }
            let term = data.terminator();
            let tspan = self.span(term.source_info.span);
            let tj = match &term.kind {
                TerminatorKind::Goto { target } => J::Obj(vec![
                    ("k", jstr("goto")),
                    ("target", J::Int(target.as_usize() as i128)),
                ]),
                TerminatorKind::SwitchInt { discr, targets } => {
                    let d = self.operand(body, env, discr);
                    let mut v = Vec::new();
                    for (val, t) in targets.iter() {
                        v.push(J::Arr(vec![J::Int(val as i128), J::Int(t.as_usize() as i128)]));
                    }
                    J::Obj(vec![
                        ("k", jstr("switch")),
                        ("discr", d),
                        ("dty", jstr(self.ty_str(discr.ty(&body.local_decls, tcx)))),
                        ("targets", J::Arr(v)),
                        ("otherwise", J::Int(targets.otherwise().as_usize() as i128)),
                        ("span", tspan),
                    ])
                }
                TerminatorKind::Return => J::Obj(vec![("k", jstr("return")), ("span", tspan)]),
                TerminatorKind::Unreachable => J::Obj(vec![("k", jstr("unreachable"))]),
                TerminatorKind::UnwindResume => J::Obj(vec![("k", jstr("resume"))]),
                TerminatorKind::UnwindTerminate(_) => J::Obj(vec![("k", jstr("terminate"))]),
                TerminatorKind::Drop { place, target, .. } => {
                    let pj = self.place(body, place);
                    J::Obj(vec![
                        ("k", jstr("drop")),
                        ("place", pj),
                        ("target", J::Int(target.as_usize() as i128)),
                    ])
                }
                TerminatorKind::Call { func, args, destination, target, fn_span, .. } => {
                    let cj = self.callee(body, env, func);
                    let mut av = Vec::new();
                    for a in args.iter() {
                        av.push(self.operand(body, env, &a.node));
                    }
                    let dj = self.place(body, destination);
                    J::Obj(vec![
                        ("k", jstr("call")),
                        ("callee", cj),
                        ("args", J::Arr(av)),
                        ("dest", dj),
                        ("target", match target {
                            Some(t) => J::Int(t.as_usize() as i128),
                            None => J::Null,
                        }),
                        ("span", tspan),
                        ("fn_span", self.span(*fn_span)),
                    ])
                }
                TerminatorKind::TailCall { func, args, .. } => {
                    let cj = self.callee(body, env, func);
                    let mut av = Vec::new();
                    for a in args.iter() {
                        av.push(self.operand(body, env, &a.node));
                    }
                    J::Obj(vec![("k", jstr("tailcall")), ("callee", cj), ("args", J::Arr(av)), ("span", tspan)])
                }
                TerminatorKind::Assert { cond, expected, msg, target, .. } => {
                    let c = self.operand(body, env, cond);
                    let m = self.assert_msg(body, env, msg);
                    J::Obj(vec![
                        ("k", jstr("assert")),
                        ("cond", c),
                        ("expected", J::Bool(*expected)),
                        ("msg", m),
                        ("target", J::Int(target.as_usize() as i128)),
                        ("span", tspan),
                    ])
                }
                TerminatorKind::FalseEdge { real_target, .. } => J::Obj(vec![
                    ("k", jstr("goto")),
                    ("target", J::Int(real_target.as_usize() as i128)),
                ]),
                TerminatorKind::FalseUnwind { real_target, .. } => J::Obj(vec![
                    ("k", jstr("goto")),
                    ("target", J::Int(real_target.as_usize() as i128)),
                ]),
                other => J::Obj(vec![("k", jstr("other")), ("dbg", jstr(format!("{:?}", other)))]),
            };
            blocks.push(J::Obj(vec![
                ("stmts", J::Arr(stmts)),
                ("term", tj),
                ("cleanup", if data.is_cleanup { J::Bool(true) } else { J::Null }),
            ]));
        }

        // signature
        let (inputs, output, is_unsafe) = if kind == DefKind::Closure {
            (Vec::new(), J::Null, false)
        } else {
            let sig = tcx.fn_sig(def_id).instantiate_identity().skip_norm_wip();
            let sig = sig.skip_binder();
            (
                sig.inputs().iter().map(|t| jstr(self.ty_str(*t))).collect::<Vec<_>>(),
                jstr(self.ty_str(sig.output())),
                sig.safety().is_unsafe(),
            )
        };
        let vis = if matches!(kind, DefKind::Fn | DefKind::AssocFn) {
            jstr(if tcx.visibility(def_id).is_public() { "pub" } else { "restricted" })
        } else {
            J::Null
        };
        let parent = tcx.parent(def_id);
        let mut impl_self = J::Null;
        let mut impl_trait = J::Null;
        if kind == DefKind::AssocFn {
            if let DefKind::Impl { of_trait } = tcx.def_kind(parent) {
                let st = tcx.type_of(parent).instantiate_identity().skip_norm_wip();
                impl_self = jstr(simplify_ty(tcx, st));
                if of_trait {
                    impl_trait = jstr(canon(tcx, tcx.impl_trait_id(parent)));
                }
            }
        }
        Some(J::Obj(vec![
            ("name", jstr(canon(tcx, def_id))),
            ("path", jstr(tcx.def_path_str(def_id))),
            ("kind", jstr(match kind {
                DefKind::Closure => "closure",
                DefKind::AssocFn => "method",
                _ => "fn",
            })),
            ("parent", jstr(canon(tcx, parent))),
            ("impl_self", impl_self),
            ("impl_trait", impl_trait),
            ("unsafe", J::Bool(is_unsafe)),
            ("vis", vis),
            ("span", self.span(body.span)),
            ("arg_count", J::Int(body.arg_count as i128)),
            ("inputs", J::Arr(inputs)),
            ("output", output),
            ("locals", J::Arr(locals)),
            ("upvars", J::Arr(upvars)),
            ("blocks", J::Arr(blocks)),
        ]))
    }

    fn adt(&mut self, did: DefId) -> J {
        let tcx = self.tcx;
        let def = tcx.adt_def(did);
        let mut variants = Vec::new();
        for (vi, v) in def.variants().iter_enumerated() {
            let discr = if def.is_enum() {
                J::Int(def.discriminant_for_variant(tcx, vi).val as i128)
            } else {
                J::Null
            };
            let mut fields = Vec::new();
            for f in v.fields.iter() {
                let fty = tcx.type_of(f.did).instantiate_identity().skip_norm_wip();
                fields.push(J::Obj(vec![
                    ("name", jstr(f.name.as_str())),
                    ("ty", jstr(self.ty_str(fty))),
                ]));
            }
            variants.push(J::Obj(vec![
                ("name", jstr(v.name.as_str())),
                ("vi", J::Int(vi.as_usize() as i128)),
                ("discr", discr),
                ("fields", J::Arr(fields)),
            ]));
        }
        let repr = def.repr();
        J::Obj(vec![
            ("kind", jstr(if def.is_enum() {
                "enum"
            } else if def.is_union() {
                "union"
            } else {
                "struct"
            })),
            ("krate", jstr(tcx.crate_name(did.krate).as_str())),
            ("variants", J::Arr(variants)),
            ("repr_align", match repr.align {
                Some(a) => J::Int(a.bytes() as i128),
                None => J::Null,
            }),
            ("repr_transparent", J::Bool(repr.transparent())),
            ("repr_c", J::Bool(repr.c())),
            ("generics", J::Int(tcx.generics_of(did).own_params.len() as i128)),
        ])
    }
}

fn export(tcx: TyCtxt<'_>, out_dir: &str) {
    let crate_name = tcx.crate_name(LOCAL_CRATE).to_string();
    let mut ex = Ex { tcx, layouts: BTreeMap::new(), adts_seen: BTreeMap::new() };

    let mut bodies = Vec::new();
    for did in tcx.hir_body_owners() {
        if let Some(b) = ex.body(did) {
            bodies.push(b);
        }
    }

    // constants of the local crate with integral type
    let mut consts = BTreeMap::new();
    for did in tcx.hir_crate_items(()).definitions() {
        let def_id = did.to_def_id();
        let kind = tcx.def_kind(def_id);
        if matches!(kind, DefKind::Struct | DefKind::Enum | DefKind::Union) {
            ex.adts_seen.insert(canon(tcx, def_id), def_id);
        }
        if !matches!(kind, DefKind::Const { .. } | DefKind::AssocConst { .. }) {
            continue;
        }
        if tcx.generics_of(def_id).requires_monomorphization(tcx) {
            continue;
        }
        // skip trait-declared associated consts without a value
        if kind_is_assoc_const(kind) {
            let parent = tcx.parent(def_id);
            if matches!(tcx.def_kind(parent), DefKind::Trait) {
                continue;
            }
        }
        let ty = tcx.type_of(def_id).instantiate_identity().skip_norm_wip();
        if !matches!(ty.kind(), ty::Bool | ty::Int(_) | ty::Uint(_)) {
            continue;
        }
        if let Ok(cv) = tcx.const_eval_poly(def_id) {
            if let Some(si) = cv.try_to_scalar_int() {
                let bits = si.to_bits(si.size());
                let v = if bits > i128::MAX as u128 { jstr(format!("{}", bits)) } else { J::Int(bits as i128) };
                consts.insert(canon(tcx, def_id), v);
            }
        }
    }

    // ADT tables (local ones and those seen in discriminant reads / aggregates)
    let mut adts = BTreeMap::new();
    let seen: Vec<DefId> = ex.adts_seen.values().copied().collect();
    for did in seen {
        let j = ex.adt(did);
        adts.insert(canon(tcx, did), j);
    }
    // layouts of monomorphic local ADTs
    let seen: Vec<DefId> = ex.adts_seen.values().copied().collect();
    for did in seen {
        if tcx.generics_of(did).requires_monomorphization(tcx) {
            continue;
        }
        let ty = tcx.type_of(did).instantiate_identity().skip_norm_wip();
        let env = TypingEnv::fully_monomorphized();
        ex.note_layout(env, ty);
    }

    let mut features = Vec::new();
    for (name, value) in tcx.sess.config.iter() {
        if name.as_str() == "feature" {
            if let Some(v) = value {
                features.push(jstr(v.as_str()));
            }
        }
    }

    let root = J::Obj(vec![
        ("crate", jstr(crate_name.clone())),
        ("features", J::Arr(features)),
        ("consts", J::Map(consts)),
        ("layouts", J::Map(ex.layouts.clone())),
        ("adts", J::Map(adts)),
        ("bodies", J::Arr(bodies)),
    ]);
    let mut s = String::new();
    root.write(&mut s);
    let path = format!("{}/{}.json", out_dir, crate_name);
    let tmp = format!("{}.tmp.{}", path, std::process::id());
    std::fs::write(&tmp, s).expect("write facts");
    std::fs::rename(&tmp, &path).expect("rename facts");
}

fn kind_is_assoc_const(kind: DefKind) -> bool {
    matches!(kind, DefKind::AssocConst { .. })
}

struct Cb {
    out: Option<String>,
    crates: Option<Vec<String>>,
}

impl rustc_driver::Callbacks for Cb {
    fn after_analysis<'tcx>(
        &mut self,
        _compiler: &rustc_interface::interface::Compiler,
        tcx: TyCtxt<'tcx>,
    ) -> Compilation {
        if let Some(out) = &self.out {
            let name = tcx.crate_name(LOCAL_CRATE).to_string();
            let wanted = match &self.crates {
                Some(list) => list.iter().any(|c| c == &name),
                None => true,
            };
            if wanted {
                export(tcx, out);
            }
        }
        Compilation::Continue
    }
}

fn main() {
    let mut args: Vec<String> = std::env::args().collect();
    // As a RUSTC_WORKSPACE_WRAPPER, argv[1] is the path of the real rustc.
    if args.len() > 1 && (args[1].ends_with("rustc") || args[1].contains("/rustc")) {
        args.remove(1);
    }
    let out = std::env::var("MIRFACTS_OUT").ok();
    let crates = std::env::var("MIRFACTS_CRATES")
        .ok()
        .map(|s| s.split(',').map(|x| x.trim().to_string()).filter(|x| !x.is_empty()).collect());
    let mut cb = Cb { out, crates };
    rustc_driver::run_compiler(&args, &mut cb);
}
