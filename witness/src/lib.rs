//! E3: compile-fail witnesses for the unsafe boundary of llfree (C18, C07).
//! Each `compile_fail` doc test is paired with a compiling twin that differs only in the offending line,
//! so a witness whose path is merely wrong cannot pass.

/// W1: `Alloc::metadata` hands out the metadata buffers that the allocator still uses; it must need `unsafe`.
/// ```compile_fail,E0133
/// use llfree::{Alloc, LLFree};
/// fn take(a: &mut LLFree<'static>) {
///     let _m = a.metadata();
/// }
/// ```
/// Twin:
/// ```
/// use llfree::{Alloc, LLFree};
/// fn take(a: &mut LLFree<'static>) {
///     let _m = unsafe { a.metadata() };
/// }
/// ```
pub struct W1MetadataIsUnsafe;

/// W2: `AtomicSlice::non_atomic` creates `&mut` to shared storage; it must need `unsafe`.
/// ```compile_fail,E0133
/// use llfree::atomic::{Atom, AtomicSlice};
/// fn fill(s: &[Atom<u64>]) {
///     s.non_atomic().fill(0);
/// }
/// ```
/// Twin:
/// ```
/// use llfree::atomic::{Atom, AtomicSlice};
/// fn fill(s: &[Atom<u64>]) {
///     unsafe { s.non_atomic() }.fill(0);
/// }
/// ```
pub struct W2NonAtomicIsUnsafe;

/// W3: the metadata buffers must outlive the allocator built over them.
/// ```compile_fail,E0597
/// use llfree::{Alloc, Classing, Init, LLFree, MetaData};
/// let (classing, _) = Classing::simple(1);
/// let alloc;
/// {
///     let (mut l, mut t, mut lo) = ([0u8; 64], [0u8; 64], [0u8; 64]);
///     let meta = MetaData { local: &mut l, trees: &mut t, lower: &mut lo };
///     alloc = LLFree::new(0, Init::None, &classing, meta);
/// }
/// drop(alloc);
/// ```
/// Twin:
/// ```
/// use llfree::{Alloc, Classing, Init, LLFree, MetaData};
/// let (classing, _) = Classing::simple(1);
/// let alloc;
/// let (mut l, mut t, mut lo) = ([0u8; 64], [0u8; 64], [0u8; 64]);
/// let meta = MetaData { local: &mut l, trees: &mut t, lower: &mut lo };
/// alloc = LLFree::new(0, Init::None, &classing, meta);
/// drop(alloc);
/// ```
pub struct W3BuffersOutliveAllocator;
