#!/bin/sh
# Runs the compile-fail witnesses against $VERIF_REPO/core (default /repo/core). `run.sh warm` only builds dependencies.
set -e
HERE="$(cd "$(dirname "$0")" && pwd)"
REPO="${VERIF_REPO:-/repo}"
WORK="$HERE/../.cache/witness"
mkdir -p "$WORK/src"
cp "$HERE/src/lib.rs" "$WORK/src/lib.rs"
cat > "$WORK/Cargo.toml" <<TOML
[package]
name = "llfree-witness"
version = "0.0.0"
edition = "2024"

[workspace]

[dependencies]
llfree = { path = "$REPO/core" }
TOML
cp "$REPO/Cargo.lock" "$WORK/Cargo.lock" 2>/dev/null || true
cd "$WORK"
export CARGO_NET_OFFLINE=true CARGO_TARGET_DIR="$HERE/../.cache/witness-target"
if [ "$1" = "warm" ]; then
  cargo +nightly build --offline 2>&1 | tail -2
  exit 0
fi
cargo +nightly test --doc --offline 2>&1
