#!/bin/sh
# Runs the compile-fail witnesses against $VERIF_REPO/core (default /repo/core). `run.sh warm` only builds dependencies.
# The generated crate lives in a per-repository work directory; runs are serialised with a lock (shared target directory).
set -e
HERE="$(cd "$(dirname "$0")" && pwd)"
REPO="${VERIF_REPO:-/repo}"
CACHE="${VERIF_CACHE:-$HERE/../.cache}"
TAG="$(printf '%s' "$REPO" | cksum | cut -d' ' -f1)"
WORK="$CACHE/witness/$TAG"
mkdir -p "$WORK/src"
exec 9>"$CACHE/witness.lock"
flock 9
cp "$HERE/src/lib.rs" "$WORK/src/lib.rs"
cat > "$WORK/Cargo.toml" <<TOML
[package]
name = "llfree-witness"
version = "0.0.0"
edition = "2024"

[workspace]

[dependencies]
llfree = { path = "$REPO/core" }
TOML
cp "$REPO/Cargo.lock" "$WORK/Cargo.lock" 2>/dev/null || true
cd "$WORK"
export CARGO_NET_OFFLINE=true CARGO_TARGET_DIR="$CACHE/witness-target"
if [ "$1" = "warm" ]; then
  cargo +nightly build --offline 2>&1 | tail -2
  exit 0
fi
set +e
cargo +nightly test --doc --offline 2>&1
rc=$?
case "$REPO" in /repo) ;; *) cd /; rm -rf "$WORK" ;; esac
exit $rc
