//! F14: MetaData::valid::overlap computed `end.sub(1)` for empty buffers (UB), and util::aligned_buf(0)
//! called alloc_zeroed with a zero-sized layout. Copy to core/tests/ and run under Miri:
//!   cargo +nightly miri test -p llfree --features std --test f14_empty_buffers_miri
use llfree::{Alloc, Class, Classing, Init, LLFree, MetaData, Policy, TREE_FRAMES};

#[repr(align(64))]
struct Buf<const N: usize>([u8; N]);

fn policy(_: Class, _: Class, _: usize) -> Policy {
    Policy::Match(1)
}

/// A classing whose only class has no local slots needs an empty `local` buffer.
#[test]
fn empty_local_buffer() {
    let classing = Classing::new(&[(Class(0), 0)], Class(0), policy);
    let frames = TREE_FRAMES;
    let ms = LLFree::metadata_size(&classing, frames);
    assert_eq!(ms.local, 0);
    let trees: &'static mut Buf<64> = Box::leak(Box::new(Buf([0; 64])));
    let lower: &'static mut Buf<4096> = Box::leak(Box::new(Buf([0; 4096])));
    assert!(ms.trees <= 64 && ms.lower <= 4096);
    // an empty, 64-byte aligned `local` buffer (what an aligned allocation of size 0 looks like)
    let local: &'static mut Buf<64> = Box::leak(Box::new(Buf([0; 64])));
    let meta = MetaData { local: &mut local.0[..0], trees: &mut trees.0, lower: &mut lower.0 };
    let alloc = LLFree::new(frames, Init::FreeAll, &classing, meta).expect("valid metadata");
    assert_eq!(alloc.frames(), frames);
}

#[cfg(feature = "std")]
#[test]
fn aligned_buf_zero() {
    let b = llfree::util::aligned_buf(0);
    assert_eq!(b.len(), 0);
    assert_eq!(b.as_ptr() as usize % 64, 0);
}
