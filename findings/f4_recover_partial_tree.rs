//! F4: Lower::recover indexed bitfields past ceil(frames/512) when the last tree is partial.
//! Copy to eval/tests/ and run: cargo test --offline -p llfree-eval --test f4_recover_partial_tree
use llfree::{Alloc, Classing, Init, LLFree, MetaData, HUGE_FRAMES, TREE_FRAMES};

#[test]
fn recover_partial_last_tree() {
    let frames = TREE_FRAMES + HUGE_FRAMES; // last tree holds 1 of TREE_HUGE huge frames
    let (classing, request) = Classing::simple(1);
    let ms = LLFree::metadata_size(&classing, frames);
    let meta = MetaData::alloc(&ms);
    let mut alloc = LLFree::new(frames, Init::FreeAll, &classing, meta).unwrap();
    let (frame, _) = alloc.get(None, request(0, 0)).unwrap();
    // only the lower (persistent) metadata survives a crash; volatile buffers are fresh
    let old = unsafe { alloc.metadata() };
    drop(alloc);
    let meta = MetaData {
        local: llfree::util::aligned_buf(ms.local),
        trees: llfree::util::aligned_buf(ms.trees),
        lower: old.lower,
    };
    let alloc = LLFree::new(frames, Init::Recover, &classing, meta).unwrap();
    assert_eq!(alloc.stats().free_frames, frames - 1);
    alloc.put(frame, request(0, 0)).unwrap();
    alloc.validate();
}
