//! F9: Count::One => to_count 1 but to_local Some(1): a request for a `one` class names slot 1 of 1.
use llfree::{Alloc, Init, LLFree, MetaData, TREE_FRAMES};
use llfree_eval::classes::ClassingConfig;

#[test]
fn one_kind_produces_valid_requests() {
    let cfg = r#"{"classes":[{"id":0,"count":"one","order":[0,11]}],"default":0,"perfect":[0,0],"good":[0,0]}"#;
    let config: ClassingConfig = facet_json::from_str(cfg).unwrap();
    let cores = 2;
    let classing = config.classing(cores);
    let slots = classing.classes()[0].1;
    let request = config.request(0, 0, cores, 0, 0);
    assert!(request.local.is_none_or(|l| l < slots), "slot {:?} of {slots}", request.local);
    // and the allocator accepts it
    let frames = 2 * TREE_FRAMES;
    let ms = LLFree::metadata_size(&classing, frames);
    let alloc = LLFree::new(frames, Init::FreeAll, &classing, MetaData::alloc(&ms)).unwrap();
    let (f, _) = alloc.get(None, request).unwrap();
    alloc.put(f, request).unwrap();
}
