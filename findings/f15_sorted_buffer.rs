//! F15: SortedBuffer::add on a full buffer evicts the *largest* element (and drops a new largest value),
//! while Trees::search_best consumes the buffer from its largest end (`best.iter().rev()`): once more than N
//! fallback candidates were seen, the N *worst* are kept instead of the N best.
use llfree::util::SortedBuffer;

fn contents<const N: usize>(b: &SortedBuffer<N, u32>) -> Vec<u32> {
    b.iter().copied().collect()
}

#[test]
fn keeps_the_largest_when_full_ascending_input() {
    let mut b = SortedBuffer::<2, u32>::new();
    for v in [1, 2, 3] {
        b.add(v);
    }
    assert_eq!(contents(&b), [2, 3]);
}

#[test]
fn keeps_the_largest_when_full_descending_input() {
    let mut b = SortedBuffer::<2, u32>::new();
    for v in [3, 2, 1] {
        b.add(v);
    }
    assert_eq!(contents(&b), [2, 3]);
}

#[test]
fn keeps_the_largest_any_permutation() {
    // every permutation of 0..6 into a buffer of 3: the three largest, ascending
    fn perms(v: &mut Vec<u32>, k: usize, out: &mut Vec<Vec<u32>>) {
        if k == v.len() {
            out.push(v.clone());
            return;
        }
        for i in k..v.len() {
            v.swap(k, i);
            perms(v, k + 1, out);
            v.swap(k, i);
        }
    }
    let mut all = Vec::new();
    perms(&mut (0..6).collect(), 0, &mut all);
    for p in all {
        let mut b = SortedBuffer::<3, u32>::new();
        for v in &p {
            b.add(*v);
        }
        assert_eq!(contents(&b), [3, 4, 5], "input {p:?}");
    }
    // with duplicates and fewer elements than capacity
    let mut b = SortedBuffer::<4, u32>::new();
    for v in [2, 2, 1] {
        b.add(v);
    }
    assert_eq!(contents(&b), [1, 2, 2]);
}
