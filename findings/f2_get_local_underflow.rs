//! F2: LLFree::get_local computed `(1 << order) - free` unguarded: a targeted allocation while the
//! slot's reservation lives in another tree (with free >= 2^order) panicked with a subtraction overflow.
use llfree::{Alloc, Class, Classing, FrameId, Init, LLFree, MetaData, Request, TREE_FRAMES};

#[test]
fn targeted_get_with_reservation_in_other_tree() {
    let frames = 4 * TREE_FRAMES;
    let (classing, _) = Classing::simple(1);
    let ms = LLFree::metadata_size(&classing, frames);
    let alloc = LLFree::new(frames, Init::FreeAll, &classing, MetaData::alloc(&ms)).unwrap();
    let req = Request::new(0, Class(0), Some(0));
    // reserve some tree through slot 0
    let (first, _) = alloc.get(None, req).unwrap();
    // now ask for a specific frame in a different tree through the same slot
    let other_tree = (first.0 / TREE_FRAMES + 2) % 4;
    let target = FrameId(other_tree * TREE_FRAMES + 17);
    let (got, _) = alloc.get(Some(target), req).expect("free frame in another tree");
    assert_eq!(got, target);
    alloc.put(got, req).unwrap();
    alloc.put(first, req).unwrap();
    alloc.validate();
}
