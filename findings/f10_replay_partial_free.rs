//! F10 demonstration (trace harness taken from the seeded C20 demo). Property C20: the trace replayer has to free exactly the
//! frames of the traced block for every free event, also if the event frees
//! only a part of a larger earlier allocation.
//!
//! The test writes small synthetic traces, runs the `replay` binary on them and
//! compares the reported number of free frames with
//! `managed frames - frames still held by the trace`.

use std::fs;
use std::path::PathBuf;
use std::process::Command;

const PAGE: usize = 4096;
const ENTRIES: usize = (PAGE - 4) / 16;
const GFP_MOVABLE: u32 = 0x08;

#[derive(Clone, Copy)]
struct Ev {
    cpu: u32,
    alloc: bool,
    pfn: u32,
    order: u8,
    flags: u32,
}

fn alloc(cpu: u32, pfn: u32, order: u8) -> Ev {
    Ev {
        cpu,
        alloc: true,
        pfn,
        order,
        flags: if pfn % 3 == 0 { GFP_MOVABLE } else { 0 },
    }
}
fn free(cpu: u32, pfn: u32, order: u8) -> Ev {
    Ev {
        cpu,
        alloc: false,
        pfn,
        order,
        flags: 0,
    }
}

/// Layout of `TraceEntry` in replay.rs (LSB first):
/// time_us:38 pfn:24 alloc:1 order:4 flags:29 pid:32
fn encode(time_us: u64, e: &Ev) -> u128 {
    assert!(e.pfn != 0 && e.pfn < (1 << 24) && e.order <= 10);
    (time_us as u128 & ((1 << 38) - 1))
        | (e.pfn as u128) << 38
        | (e.alloc as u128) << 62
        | (e.order as u128) << 63
        | (e.flags as u128 & ((1 << 29) - 1)) << 67
        | (1234u128) << 96
}

/// Serializes the events (in the given global order) into the trace format.
fn write_trace(name: &str, cores: u32, max_pfn: u32, events: &[Ev]) -> PathBuf {
    // one list of trace pages per cpu
    let mut per_cpu: Vec<Vec<u128>> = vec![Vec::new(); cores as usize];
    for (i, e) in events.iter().enumerate() {
        per_cpu[e.cpu as usize].push(encode(10 * (i as u64 + 1), e));
    }
    let mut pages: Vec<[u8; PAGE]> = Vec::new();
    for (cpu, entries) in per_cpu.iter().enumerate() {
        for chunk in entries.chunks(ENTRIES) {
            let mut page = [0u8; PAGE];
            page[0..4].copy_from_slice(&(cpu as u32).to_le_bytes());
            for (i, entry) in chunk.iter().enumerate() {
                let off = 16 + i * 16;
                page[off..off + 16].copy_from_slice(&entry.to_le_bytes());
            }
            pages.push(page);
        }
    }
    let mut data = vec![0u8; PAGE];
    data[0..4].copy_from_slice(&(pages.len() as u32).to_le_bytes());
    data[4..8].copy_from_slice(&cores.to_le_bytes());
    data[8..12].copy_from_slice(&max_pfn.to_le_bytes());
    for page in &pages {
        data.extend_from_slice(page);
    }

    let path = std::env::temp_dir().join(format!("seed_demo_{}_{name}.trace", std::process::id()));
    fs::write(&path, data).unwrap();
    path
}

fn json_usize(out: &str, key: &str) -> usize {
    let pos = out.find(&format!("\"{key}\"")).expect("key missing") + key.len() + 2;
    let digits: String = out[pos..]
        .chars()
        .skip_while(|c| !c.is_ascii_digit())
        .take_while(|c| c.is_ascii_digit())
        .collect();
    digits.parse().unwrap()
}

/// Replays the trace and returns (free_frames, total_frames)
fn replay(name: &str, cores: u32, max_pfn: u32, events: &[Ev]) -> (usize, usize) {
    let path = write_trace(name, cores, max_pfn, events);
    let output = Command::new(env!("CARGO_BIN_EXE_replay"))
        .arg(&path)
        .env("RUST_LOG", "error")
        .output()
        .unwrap();
    let _ = fs::remove_file(&path);
    let stdout = String::from_utf8_lossy(&output.stdout);
    let stderr = String::from_utf8_lossy(&output.stderr);
    assert!(
        output.status.success(),
        "replay failed\nstdout: {stdout}\nstderr: {stderr}"
    );
    if !stderr.trim().is_empty() {
        eprintln!("[{name}] replay stderr:\n{stderr}");
    }
    (
        json_usize(&stdout, "free_frames"),
        json_usize(&stdout, "total_frames"),
    )
}

const MAX_PFN: u32 = 8 * 512 - 1;

/// F10: a partial free that is NOT the first part of the traced allocation must release that part.
#[test]
fn partial_free_of_second_half_first() {
    let events = vec![
        alloc(0, 1024, 2),
        free(1, 1026, 1), // second half first
        free(0, 1024, 1), // then the first half
    ];
    let (free, total) = replay("second_half_first", 2, MAX_PFN, &events);
    assert_eq!(total, MAX_PFN as usize + 1);
    assert_eq!(free, total, "both halves were freed by the trace");
}
