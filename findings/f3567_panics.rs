//! F3, F5, F6, F7: panics for valid-parameter calls (C09). Each test panics on the unfixed code.
use llfree::{
    Alloc, Class, Classing, Init, LLFree, MetaData, Policy, Request, TreeChange, TreeId, TreeMatch,
    TreeOperation, HUGE_FRAMES, HUGE_ORDER, TREE_FRAMES,
};

fn policy(requested: Class, target: Class, free: usize) -> Policy {
    if requested.0 > target.0 {
        return Policy::Steal;
    } else if requested.0 < target.0 {
        return Policy::Demote;
    }
    match free {
        f if f >= TREE_FRAMES / 2 => Policy::Match(1),
        f if f >= TREE_FRAMES / 64 => Policy::Match(u8::MAX),
        _ => Policy::Match(0),
    }
}

fn alloc_with(classing: &Classing, frames: usize) -> LLFree<'static> {
    let ms = LLFree::metadata_size(classing, frames);
    LLFree::new(frames, Init::FreeAll, classing, MetaData::alloc(&ms)).unwrap()
}

/// F3: a class with slots steals from a tree of a class without slots.
#[test]
fn f3_steal_from_zero_slot_class() {
    let classing = Classing::new(&[(Class(0), 0), (Class(1), 1)], Class(0), policy);
    let alloc = alloc_with(&classing, 4 * TREE_FRAMES);
    let req = Request::new(0, Class(1), Some(0));
    let (f, _) = alloc.get(None, req).expect("memory is free");
    alloc.put(f, req).unwrap();
}

/// F5: an empty allocator can be created (and reports out-of-memory).
#[test]
fn f5_zero_frames() {
    let (classing, request) = Classing::simple(1);
    for init in [Init::FreeAll, Init::AllocAll] {
        let ms = LLFree::metadata_size(&classing, 0);
        let alloc = LLFree::new(0, init, &classing, MetaData::alloc(&ms)).unwrap();
        assert_eq!(alloc.stats().free_frames, 0);
        assert!(alloc.get(None, request(0, 0)).is_err());
    }
}

/// F6: a reserved tree becomes entirely free through frees that bypass its slot (zeroed policy).
#[test]
fn f6_reserved_tree_freed_through_other_slots() {
    let classing = Classing::new(&[(Class(0), 1), (Class(1), 1), (Class(2), 1)], Class(1), policy);
    let alloc = alloc_with(&classing, 4 * TREE_FRAMES);
    // make one tree class 2 (offline + online, as the zeroing use case does)
    alloc
        .change_tree(
            TreeMatch { id: None, class: Some(Class(1)), free: TREE_FRAMES },
            TreeChange { class: None, operation: Some(TreeOperation::Offline) },
        )
        .unwrap();
    alloc
        .change_tree(
            TreeMatch { id: None, class: Some(Class(1)), free: 0 },
            TreeChange { class: Some(Class(2)), operation: Some(TreeOperation::Online) },
        )
        .unwrap();
    // the class-2 slot reserves that tree and allocates all of it
    let zeroed = Request::new(HUGE_ORDER, Class(2), Some(0));
    let mut held = Vec::new();
    for _ in 0..TREE_FRAMES / HUGE_FRAMES {
        let (f, c) = alloc.get(None, zeroed).unwrap();
        assert_eq!(c, Class(2));
        held.push(f);
    }
    // everything is freed without naming the slot
    for f in held {
        alloc.put(f, Request::new(HUGE_ORDER, Class(2), None)).unwrap();
    }
    alloc.drain(); // returns the (empty) reservation
    alloc.validate();
}

/// F7: a tree change naming a nonexistent tree returns an error.
#[test]
fn f7_change_nonexistent_tree() {
    let (classing, _) = Classing::simple(1);
    let alloc = alloc_with(&classing, 4 * TREE_FRAMES);
    let r = alloc.change_tree(
        TreeMatch { id: Some(TreeId(1000)), class: None, free: 0 },
        TreeChange { class: None, operation: Some(TreeOperation::Offline) },
    );
    assert!(r.is_err());
}
