//! F8: Tree::sync_steal used `free > min`: with exactly 2^order - l frames in the reserved tree's
//! global counter a single-slot allocator reports out-of-memory although a frame is free.
use llfree::{Alloc, Class, Classing, FrameId, Init, LLFree, MetaData, Request, TREE_FRAMES};

#[test]
fn single_slot_finds_the_one_free_frame() {
    let frames = 2 * TREE_FRAMES;
    let (classing, _) = Classing::simple(1);
    let ms = LLFree::metadata_size(&classing, frames);
    let alloc = LLFree::new(frames, Init::FreeAll, &classing, MetaData::alloc(&ms)).unwrap();
    let with_slot = Request::new(0, Class(0), Some(0));
    let no_slot = Request::new(0, Class(0), None);
    let mut held: Vec<FrameId> = Vec::new();
    while let Ok((f, _)) = alloc.get(None, with_slot) {
        held.push(f);
    }
    assert_eq!(held.len(), frames);
    // free exactly one frame of every tree in turn, without naming the slot, and allocate again
    for victim in [held[0], held[frames - 1], held[TREE_FRAMES], held[TREE_FRAMES - 1]] {
        alloc.put(victim, no_slot).unwrap();
        assert_eq!(alloc.stats().free_frames, 1);
        let (f, _) = alloc
            .get(None, with_slot)
            .expect("one frame is free, the allocation must not report out-of-memory");
        assert_eq!(f, victim);
    }
}
